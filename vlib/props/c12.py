"""C12 — the hash cache never changes results (engine K).

Proof obligations: coq/Props_C12.v (unbounded histories of edits / runs with any configuration / lost
entries; any program of hasher calls).
Correspondence, two levels:
  (a) API level: op sequences on the real `HashCache` (open / put / get / close / reopen with another
      algorithm or transform) and on `FileHasher::new_cached` (hash_file / hash_transformed on chunks of real
      files whose content / mtime / length / name / link count the sequence mutates) vs the extracted map
      model (coq/driver/drv_K.ml).  Every answer is compared; the model's hashes are symbolic
      `H<a>(bytes)` and are resolved with the reference hash crates (`cache ref`).  The direct oracle is
      evaluated on every hasher call: the answer of the cached hasher vs an uncached hasher on the same
      file at the same moment.
  (b) CLI level: histories of 1..6 steps (edit the tree; `fclones group --cache <configuration>`); after every
      step the report body of the cached run is compared with an uncached run on the same state — the
      property itself.  XDG_CACHE_HOME / TMPDIR / PATH point into the scratch directory.
"""
import json
import os
import re
import shutil
import signal
import stat as statmod
import subprocess
import time
from concurrent.futures import ThreadPoolExecutor

from .. import core

CACHE_BIN = os.path.join(core.BIN, "cache")

# index -> (command string, Transform.in_place, Transform.copy)   (same table: coq/driver/drv_K.ml, harness/src/bin/cache.rs)
TTABLE = [("cat", False, False), ("head -c 3", False, False), ("tr a-m n-z", False, False),
          ("base64 -w0", False, False), ("false", False, False), ("vk_failz", False, False),
          ("sed -i y/abc/xyz/ $IN", False, True), ("sed -i y/abc/xyz/ $IN", True, True),
          ("cat $IN", False, True), ("cat $IN", False, False), ("<none>", False, True),
          ("sed y/abc/xyz/ $IN --in-place", False, True), ("sed y/abc/xyz/ $IN", True, True),
          ("v1/vk_norm", False, False), ("v2/vk_norm", False, False), ("head  -c 3", False, False), ("cat ", False, False)]
T_SAMENAME = [13, 14, 15, 16, 0, 1]    # same basename in two directories; whitespace variants of 1 and 0
T_CLEAN = [0, 1, 2, 3, 4, 5, 6, 7, 8, 9]
T_FLAGS = [6, 7, 8, 9]
NALGO = 7
HASH_FNS = ["metro", "xxhash", "blake3", "sha256", "sha512", "sha3-256", "sha3-512"]

# KC1, KC2, KC3 are repaired in /repo.  KC4 is the limit of the design (validation by stamp only)
KINDS = {"returning": "stale_hit_returning_stamp"}


def code_ms(ns):
    """cache.rs timestamp_ms: whole ms, rounded towards zero"""
    return ns // 1_000_000 if ns >= 0 else -((-ns) // 1_000_000)


class Mtimes:
    """Pool of modification times (ns).  Every value handed out has a millisecond stamp (as the cache computes it)
    that was not handed out before in this sequence / history, so the proviso holds by construction for every
    inode (also across inode reuse) — except with `collide=True`.  Classes (recorded in the histogram):
      whole_second        ms part 000
      same_second         same second as the file's previous mtime, other ms (incl. from / to .000)
      plus_1ms, minus_1ms neighbours of the previous mtime
      older               an OLDER mtime than the previous one (restored after the change)
      later               a later one
      pre_epoch_*         the same classes before 1970 (the previous mtime or the pool base is negative)
      epoch_edge          -1 ms, 0, +1 ms
      same_ms             (collide) the previous millisecond again: the proviso is violated on purpose"""

    def __init__(self, rng, preepoch=False, pre_jump=(1, 16)):
        self.r = rng
        self.used = set()
        self.preepoch = preepoch
        self.pre_jump = pre_jump
        self.base = (1_700_000_000 + rng.below(100_000)) * 1000            # ms, a whole second
        self.nbase = -(5 + rng.below(2_000_000_000)) * 1000                 # ms, a whole second before 1970
        self.classes = []

    def _ns(self, ms, exact=None):
        sub = 0 if (self.r.chance(1, 2) if exact is None else exact) else self.r.below(1_000_000)
        if ms > 0:
            return ms * 1_000_000 + sub
        if ms < 0:
            return ms * 1_000_000 - sub
        return sub if self.r.chance(1, 2) else -sub

    def pick(self, old=None, collide=False):
        r = self.r
        if collide and old is not None:
            self.classes.append("same_ms")
            return self._ns(code_ms(old), exact=False)
        for _ in range(40):
            neg_home = self.preepoch or (old is not None and old < 0)
            if old is None or r.chance(1, 6):
                home = self.nbase if (self.preepoch or r.chance(*self.pre_jump)) else self.base
                k = r.below(8)
                if k == 0:
                    ms, cls = r.choice([-1, 0, 1]), "epoch_edge"
                elif k <= 4:
                    ms, cls = home + 1000 * (r.below(400) - 200), "whole_second"
                else:
                    ms, cls = home + r.below(400_000) - 200_000, "later" if old is None or home > code_ms(old) else "older"
                neg_home = ms < 0
            else:
                o = code_ms(old)
                k = r.below(11)
                if k == 10:
                    # exact shifts of the whole time stamp (sub-millisecond part kept): k * 999 ms (seconds up, sub-second part
                    # down: collides when units are mixed up), whole seconds / minutes, 2^32 ms (a stamp truncated to 32 bits)
                    m = 1 + r.below(3)
                    d, nm = r.choice([(999_000_000 * m, "k999ms"), (1_000_000_000 * m, "ks"), (60_000_000_000, "60s"),
                                      ((1 << 32) * 1_000_000, "2^32ms")])
                    ns = old + d * (1 if r.chance(3, 4) else -1)
                    if ns == 0 or (ns < 0) != (old < 0) or code_ms(ns) in self.used:
                        continue
                    self.used.add(code_ms(ns))
                    self.classes.append(("pre_epoch_" if ns < 0 else "") + "exact_shift_" + nm)
                    return ns
                if k <= 2:
                    sec = (abs(o) // 1000) * 1000
                    j = 0 if r.chance(1, 3) else r.below(1000)
                    ms, cls = (sec + j) * (1 if o >= 0 else -1), "same_second"
                elif k == 3:
                    ms, cls = o + 1, "plus_1ms"
                elif k == 4:
                    ms, cls = o - 1, "minus_1ms"
                elif k <= 6:
                    ms, cls = o - 1 - r.below(5000), "older"
                elif k == 7:
                    ms, cls = ((abs(o) // 1000) + 1 + r.below(3)) * 1000 * (1 if o >= 0 else -1), "whole_second"
                else:
                    ms, cls = o + 1 + r.below(5000), "later"
            if ms in self.used:
                continue
            self.used.add(ms)
            if ms < 0 and cls != "epoch_edge":
                cls = "pre_epoch_" + cls
            if ms % 1000 == 0 and cls.endswith("same_second"):
                cls += "_to_000"
            elif old is not None and code_ms(old) % 1000 == 0 and cls.endswith("same_second"):
                cls += "_from_000"
            self.classes.append(cls)
            return self._ns(ms)
        while True:
            self.base += 7919
            if self.base not in self.used:
                self.used.add(self.base)
                self.classes.append("later")
                return self._ns(self.base)

HELPERS = {
    # outputs its input, then fails iff the first byte is 'z' (the hash is computed, the exit status is non-zero)
    "vk_failz": "#!/bin/sh\nf=$(mktemp)\ncat > \"$f\"\ncat \"$f\"\nc=$(head -c1 \"$f\")\nrm -f \"$f\"\n[ \"$c\" != \"z\" ]\n",
    "<none>": "#!/bin/sh\nexec head -c 2\n",
    "vk_head2": "#!/bin/sh\nexec head -c 2\n",
    # Transform::new probes the program by its bare file name; the run uses the path as given
    "vk_norm": "#!/bin/sh\nexec head -c 3\n",
}
# two different programs with the same file name (used as v1/vk_norm and v2/vk_norm, relative to the working directory)
SAMENAME = {"v1": "#!/bin/sh\nexec head -c 3\n", "v2": "#!/bin/sh\nexec cat\n"}


def write_helpers(bindir):
    os.makedirs(bindir, exist_ok=True)
    for name, body in HELPERS.items():
        p = os.path.join(bindir, name)
        with open(p, "w") as f:
            f.write(body)
        os.chmod(p, 0o755)
    root = os.path.dirname(os.path.abspath(bindir))
    for d, body in SAMENAME.items():
        os.makedirs(os.path.join(root, d), exist_ok=True)
        p = os.path.join(root, d, "vk_norm")
        with open(p, "w") as f:
            f.write(body)
        os.chmod(p, 0o755)


# ================================================================================================
# (a) API level

def dots(bs):
    return ".".join(str(b) for b in bs) if bs else "-"


class ApiGen:
    """One op sequence.  profile: clean | same_ms | preepoch | inplace | none."""

    def __init__(self, rng, profile):
        self.r = rng
        self.profile = profile
        self.files = {}          # name -> shared file object {"data": [...], "mt": ns}
        self.mt = Mtimes(rng.fork(), preepoch=(profile == "preepoch"))
        self.ops = []
        self.specs = []          # chunk specs used so far [(name-independent pos,len)]
        self.algos = [rng.below(NALGO) for _ in range(2)]
        if profile == "flags":
            self.trs = [str(rng.choice(T_FLAGS)) for _ in range(3)] + (["-"] if rng.chance(1, 3) else [])
        elif profile == "none":
            self.trs = ["-", "10"]
        elif profile == "alias":
            self.trs = ["11", "12"]
        elif profile == "samename":
            self.trs = [str(x) for x in rng.shuffle(T_SAMENAME)[:3]]
            if "13" not in self.trs and "14" not in self.trs:
                self.trs[0] = "13"
            if ("13" in self.trs) != ("14" in self.trs):
                self.trs.append("14" if "13" in self.trs else "13")
        else:
            k = 1 + rng.below(3)
            self.trs = ["-"] + [str(rng.choice(T_CLEAN)) for _ in range(k)]
        self.feat = set()
        # direct puts of arbitrary hashes test the map laws only: they poison the trees, so the oracle is off then
        self.allow_put = rng.chance(1, 4)

    def fresh(self, old=None):
        return self.mt.pick(old)

    def mtime_for_change(self, old, f=None):
        if self.profile == "same_ms" and old is not None and self.r.chance(1, 2):
            self.feat.add("kept_ms")
            return self.mt.pick(old, collide=True)
        # a RETURNING stamp: the mtime this file had two states ago is set back after a same-size rewrite
        hist = f.get("hist", []) if f else []
        if len(hist) >= 2 and code_ms(hist[-2]) != code_ms(hist[-1]) and \
                self.r.chance(*((1, 2) if self.profile == "returning" else (1, 12))):
            self.feat.add("returning_stamp")
            self.mt.classes.append("returns_2_back")
            return hist[-2]
        return self.mt.pick(old)

    def generate_returning(self):
        """run; touch (mtime only); [run with the same / another configuration | nothing]; same-size rewrite that sets the
        first mtime back; run.  With the middle run on the same keys put overwrites the entries (safe); without it the
        first entries are served (KC4)."""
        r = self.r
        for _ in range(2 + r.below(2)):
            free = [n for n in range(1, 5) if n not in self.files]
            p = r.choice(free)
            d, mt = self.content() or self.word(3), self.fresh()
            self.ops.append("c:%d:%s:%d" % (p, dots(d), mt))
            self.files[p] = {"data": d, "mt": mt, "hist": [mt]}
        a, tr = r.choice(self.algos), r.choice(self.trs)
        names = sorted(self.files)
        calls = []
        for nm in names:
            ln = len(self.files[nm]["data"])
            if tr == "-":
                calls += ["H:%d:0:%d" % (nm, ln), "H:%d:0:2" % nm]
            else:
                calls.append("X:%d:0:%d" % (nm, ln))
        session = lambda aa, tt: ["HO:%d:%s" % (aa, tt)] + [c for c in calls if (tt == "-") == c.startswith("H")] + ["HC"]
        self.ops += session(a, tr)
        victims = [nm for nm in names if r.chance(2, 3)] or names[:1]
        for nm in victims:
            f = self.files[nm]
            mt = self.fresh(f["mt"])
            self.ops.append("u:%d:%d" % (nm, mt))
            f["mt"] = mt
            f["hist"].append(mt)
        k = r.below(4)
        if k <= 1:
            self.ops += session(a, tr)                        # refreshed
            self.feat.add("returning_refreshed")
        elif k == 2:
            other = (a + 1) % NALGO
            self.ops += session(other, tr)                    # hashed, but into another tree
            self.feat.add("returning_other_tree")
        else:
            self.feat.add("returning_unrefreshed")
        for nm in victims:
            f = self.files[nm]
            d = list(f["data"])
            d[r.below(len(d))] = 97 + r.below(26)
            mt = f["hist"][-2]
            self.mt.classes.append("returns_2_back")
            self.ops.append("w:%d:%s:%d" % (nm, dots(d), mt))
            f["data"], f["mt"] = d, mt
            f["hist"].append(mt)
        self.feat.add("returning_stamp")
        self.ops += session(a, tr)
        for _ in range(r.below(3)):
            self.edit()
            if r.chance(1, 2):
                self.hasher_session()
        return self.ops

    def word(self, n):
        return [97 + self.r.below(4) if self.r.chance(3, 4) else 97 + self.r.below(26) for _ in range(n)]

    def content(self):
        n = self.r.choice([0, 1, 2, 3, 3, 4, 5, 6, 8, 10, 12])
        if self.files and self.r.chance(1, 2):       # share a prefix / suffix / everything with another file
            other = self.r.choice(sorted(self.files))
            d = list(self.files[other]["data"])
            k = self.r.below(4)
            if k == 0:
                return d
            if k == 1 and d:
                d[self.r.below(len(d))] = 97 + self.r.below(26)
                return d
            if k == 2:
                return d[:n] + self.word(max(0, n - len(d)))
            return (self.word(n) + d)[-max(n, 1):]
        w = self.word(n)
        if w and self.r.chance(1, 8):
            w[0] = 122
        return w

    def edit(self):
        self.edit0()
        for f in self.files.values():
            h = f.setdefault("hist", [])
            if not h or h[-1] != f["mt"]:
                h.append(f["mt"])

    def edit0(self):
        r = self.r
        names = sorted(self.files)
        free = [n for n in range(1, 5) if n not in self.files]
        k = r.below(12)
        if not names or (k == 0 and free):
            p = r.choice(free) if free else r.choice(names)
            d, mt = self.content(), self.fresh()
            self.ops.append("c:%d:%s:%d" % (p, dots(d), mt))
            if p not in self.files:
                self.files[p] = {"data": d, "mt": mt}
            self.feat.add("create")
            return
        p = r.choice(names)
        f = self.files[p]
        if k in (1, 2, 3):      # same-size rewrite
            d = list(f["data"])
            if d:
                d[r.below(len(d))] = 97 + r.below(26)
            mt = self.mtime_for_change(f["mt"], f)
            self.ops.append("w:%d:%s:%d" % (p, dots(d), mt))
            f["data"], f["mt"] = d, mt
            self.feat.add("rewrite_same_size")
        elif k == 4:            # other length
            d, mt = self.content(), self.fresh(f["mt"])
            self.ops.append("w:%d:%s:%d" % (p, dots(d), mt))
            f["data"], f["mt"] = d, mt
            self.feat.add("rewrite_other_size")
        elif k == 5:
            x, mt = self.word(1 + r.below(3)), self.fresh(f["mt"])
            self.ops.append("a:%d:%s:%d" % (p, dots(x), mt))
            f["data"], f["mt"] = f["data"] + x, mt
            self.feat.add("append")
        elif k == 6:
            n, mt = r.below(len(f["data"]) + 3), self.fresh(f["mt"])
            self.ops.append("t:%d:%d:%d" % (p, n, mt))
            f["data"], f["mt"] = (f["data"] + [0] * n)[:n], mt
            self.feat.add("truncate")
        elif k == 7:
            mt = self.fresh(f["mt"])
            self.ops.append("u:%d:%d" % (p, mt))
            f["mt"] = mt
            self.feat.add("touch")
        elif k == 8:
            q = r.choice(range(1, 5))
            self.ops.append("r:%d:%d" % (p, q))
            if q != p:
                self.files[q] = self.files.pop(p)
            self.feat.add("rename")
        elif k == 9:            # delete and re-create (the kernel may hand out the same inode number)
            self.ops.append("d:%d" % p)
            del self.files[p]
            q = r.choice([n for n in range(1, 5) if n not in self.files])
            d = self.content()
            if self.profile == "same_ms" and r.chance(1, 2):       # `cp -p` of another file of the same size
                d, mt = self.word(len(f["data"])), f["mt"]
                self.feat.add("kept_ms")
            else:
                mt = self.fresh(f["mt"])
            self.ops.append("c:%d:%s:%d" % (q, dots(d), mt))
            self.files[q] = {"data": d, "mt": mt}
            self.feat.add("delete_recreate")
        elif k == 10 and free:
            q = r.choice(free)
            self.ops.append("l:%d:%d" % (p, q))
            self.files[q] = f
            self.feat.add("hard_link")
        else:
            self.ops.append("d:%d" % p)
            del self.files[p]
            self.feat.add("unlink")

    def spec(self, name):
        r = self.r
        if self.specs and r.chance(2, 3):
            return r.choice(self.specs)
        ln = len(self.files[name]["data"]) if name in self.files else 3
        s = r.choice([(0, 2), (0, 3), (0, 4), (0, 8), (0, ln), (0, ln + 5), (0, 1 << 40),
                      (max(ln - 3, 0), 3), (1, 2), (2, 1 << 20)])
        self.specs.append(s)
        return s

    def hasher_session(self):
        r = self.r
        a, tr = r.choice(self.algos), r.choice(self.trs)
        self.ops.append("HO:%d:%s" % (a, tr))
        for _ in range(1 + r.below(5)):
            name = r.choice(sorted(self.files)) if self.files and r.chance(9, 10) else 1 + r.below(4)
            if getattr(self, "dir", False) and tr == "-" and r.chance(1, 4):
                name = 5         # only hash_file: what a transform program does with an unreadable input is its own business
            if tr == "-":
                pos, ln = self.spec(name)
                self.ops.append("H:%d:%d:%d" % (name, pos, ln))
            else:
                ln = len(self.files[name]["data"]) if name in self.files and r.chance(4, 5) else r.below(6)
                self.ops.append("X:%d:0:%d" % (name, ln))
                self.specs.append((0, ln))
        self.ops.append("HC")
        if tr != "-":
            self.feat.add("transform")

    def direct_session(self):
        r = self.r
        a, tr = r.choice(self.algos), r.choice(self.trs)
        self.ops.append("O:%d:%s" % (a, tr))
        for _ in range(1 + r.below(5)):
            name = r.choice(sorted(self.files)) if self.files and r.chance(9, 10) else 1 + r.below(4)
            pos, ln = self.spec(name)
            if self.allow_put and r.chance(1, 2):
                self.feat.add("direct_put")
                h = [r.below(256) for _ in range(r.choice([1, 16, 16, 32, 64]))]
                self.ops.append("P:%d:%d:%d:%d:%s" % (name, pos, ln, r.below(1 << 20), dots(h)))
            else:
                self.ops.append("G:%d:%d:%d" % (name, pos, ln))
        self.ops.append("C")
        self.feat.add("direct")

    def generate_shifted(self):
        """run; same-size rewrite whose new mtime is the old one shifted by an EXACT amount (k * 999 ms, whole seconds, a minute,
        2^32 ms — sub-millisecond part unchanged); same run again.  The millisecond stamps differ, so the second run must re-hash."""
        r = self.r
        for _ in range(2 + r.below(2)):
            free = [n for n in range(1, 5) if n not in self.files]
            p = r.choice(free)
            d, mt = self.content() or self.word(3), self.mt._ns(self.mt.base + r.below(400_000) + 5000, exact=False)
            self.mt.used.add(code_ms(mt))
            self.ops.append("c:%d:%s:%d" % (p, dots(d), mt))
            self.files[p] = {"data": d, "mt": mt, "hist": [mt]}
        a, tr = r.choice(self.algos), r.choice(self.trs)
        names = sorted(self.files)
        calls = []
        for nm in names:
            ln = len(self.files[nm]["data"])
            calls += ["H:%d:0:%d" % (nm, ln), "H:%d:0:2" % nm] if tr == "-" else ["X:%d:0:%d" % (nm, ln)]
        session = ["HO:%d:%s" % (a, tr)] + calls + ["HC"]
        self.ops += session
        for nm in names:
            f = self.files[nm]
            m = 1 + r.below(3)
            dlt, cls = r.choice([(999_000_000 * m, "k999ms"), (999_000_000 * m, "k999ms"), (1_000_000_000 * m, "ks"),
                                 (60_000_000_000, "60s"), ((1 << 32) * 1_000_000, "2^32ms")])
            mt = f["mt"] + dlt
            if code_ms(mt) in self.mt.used:
                continue
            self.mt.used.add(code_ms(mt))
            self.mt.classes.append("exact_shift_" + cls)
            d = list(f["data"])
            d[r.below(len(d))] = 97 + r.below(26)
            self.ops.append("w:%d:%s:%d" % (nm, dots(d), mt))
            f["data"], f["mt"] = d, mt
            f["hist"].append(mt)
        self.feat.add("exact_shift_rewrite")
        self.ops += session
        for _ in range(r.below(3)):
            self.edit()
            if r.chance(1, 2):
                self.hasher_session()
        return self.ops

    def generate(self):
        r = self.r
        if self.profile == "shifted":
            self.dir = False
            return self.generate_shifted()
        if self.profile == "returning" and r.chance(3, 4):
            self.dir = False
            ops = self.generate_returning()
            return ops
        self.dir = r.chance(1, 5) and self.profile == "clean"
        if self.dir:
            self.ops.append("m:5:%d" % self.fresh())
            self.feat.add("unreadable_file")
        for _ in range(1 + r.below(3)):
            self.edit()
        for _ in range(2 + r.below(5)):
            if r.chance(3, 4):
                self.hasher_session()
            else:
                self.direct_session()
            for _ in range(r.below(3)):
                self.edit()
        # a last look at everything that may be stored
        if r.chance(1, 2):
            self.hasher_session()
        return self.ops


HTOK = re.compile(r"H(\d+)\(([-0-9.]*)\)")


def annotate_for_model(ops, impl_tokens):
    """insert the observed inode number into the `c` ops"""
    out = []
    for op, tok in zip(ops, impl_tokens):
        if op.startswith("c:"):
            ino = tok[1:] if tok.startswith("i") else "-"
            out.append(op + ":" + ino)
        elif op.startswith("m:"):
            f = tok[1:].split(",") if tok.startswith("i") and "," in tok else ["-", "0"]
            out.append(op + ":" + f[0] + ":" + f[1])
        else:
            out.append(op)
    return out


def parse_out(line):
    parts = [x.strip() for x in line.split("|")]
    return parts[0], parts[1].split() if len(parts) > 1 else [], parts[2] if len(parts) > 2 else ""


def api_run(ctx, seqs, model, scratch, parallel=True):
    """seqs: list of (id, ops).  Returns list of dicts with impl/model tokens (hashes resolved) and flags."""
    os.makedirs(scratch, exist_ok=True)
    write_helpers(os.path.join(scratch, "bin"))
    lines = ["%s %s" % (sid, " ".join(ops)) for sid, ops in seqs]
    runner = core.run_lines_parallel if parallel else core.run_lines
    impl = runner(CACHE_BIN, lines, args=["api", scratch], timeout=3000)
    if len(impl) != len(lines):
        raise RuntimeError("cache harness: %d output lines for %d sequences" % (len(impl), len(lines)))
    mlines = []
    impl_toks = []
    for (sid, ops), il in zip(seqs, impl):
        iid, itoks, _ = parse_out(il)
        if iid != sid:
            raise RuntimeError("cache harness: out of order output %r for %r" % (il[:80], sid))
        impl_toks.append(itoks)
        if len(itoks) != len(ops):
            mlines.append("%s %s" % (sid, " ".join(ops)))       # harness crashed; keep the line count
        else:
            mlines.append("%s %s" % (sid, " ".join(annotate_for_model(ops, itoks))))
    mod = runner(model, mlines)
    # resolve the symbolic hashes of the model with the reference hasher
    need = {}
    for ml in mod:
        for m in HTOK.finditer(ml):
            need[(m.group(1), m.group(2) or "-")] = None
    keys = sorted(need)
    if keys:
        hexes = core.run_lines(CACHE_BIN, ["%s %s" % k for k in keys], args=["ref"])
        for k, hx in zip(keys, hexes):
            need[k] = hx
    res = []
    for (sid, ops), itoks, ml, mline in zip(seqs, impl_toks, mod, mlines):
        mid, mtoks, flags = parse_out(ml)
        mraw = list(mtoks)
        mtoks = [HTOK.sub(lambda m: need[(m.group(1), m.group(2) or "-")], t) for t in mtoks]
        fl = dict(x.split("=") for x in flags.split()) if flags else {}
        res.append({"id": sid, "ops": ops, "impl": itoks, "model": mtoks, "model_raw": mraw, "flags": fl,
                    "model_line": mline, "model_out": ml})
    return res


def split_tok(tok):
    """-> (answer, meta)"""
    if "@" in tok:
        a, m = tok.split("@", 1)
        return a, m
    return tok, ""


def api_examine(ctx, r, profile, count=True):
    """Compare one sequence.  Returns (status, detail): status in ok | env | corr | crash"""
    ops, impl, model, fl = r["ops"], r["impl"], r["model"], r["flags"]
    if len(impl) != len(ops) or any(t.startswith("EXN") for t in impl):
        return "crash", "harness: " + " ".join([t for t in impl if t.startswith("EXN")][:2])[:700]
    if len(model) != len(ops) or any(t.startswith("EXN") for t in model):
        return "crash", "model: " + r["model_out"][:300]
    status, detail = "ok", None
    oracle_fail = []
    for i, (op, it, mt) in enumerate(zip(ops, impl, model)):
        cached = it.split("~")[0]
        ia, im = split_tok(cached)
        ma, mm = split_tok(mt)
        if mt == "i!" or (im and mm and im != mm):
            return "env", "op %d %s: kernel state differs from the requested one (impl %s, model %s)" % (i, op, it, mt)
        if ia != ma and status == "ok":
            status, detail = "corr", {"op_index": i, "op": op, "impl": it, "model": mt, "model_raw": r["model_raw"][i]}
        if "~" in it:
            ref = it.split("~")[1]
            got = ia[3:] if ia.startswith("ok:") else ia
            if got != ref:
                oracle_fail.append((i, op, got, ref, ia == ma))
    if count:
        ctx.count(len(ops))
    r["oracle_fail"] = oracle_fail
    return status, detail


def classify(fl, model_agrees=True):
    """kind of an oracle failure (cached != uncached) in a sequence whose model flags are fl.
    sd = pairwise proviso (stamp_determines_b), sw = step-by-step proviso (stepwise_b).
      sd holds                      -> a violation under every reading
      neither holds                 -> None: excluded by the proviso
      only sw holds (returning stamp): the unmodified code serves the old entry when nothing re-hashed the key in
          between (KC4, the model predicts exactly that); if the MODEL predicts the fresh answer and the implementation
          is stale, the implementation lost the overwrite: a violation with a concrete input"""
    if fl.get("sd") == "1":
        return "cached_differs_from_uncached"
    if fl.get("sw") != "1":
        return None
    return KINDS["returning"] if model_agrees else "cached_differs_from_uncached"


def api_level(ctx, model):
    rng = ctx.rng.fork()
    n = ctx.pick(2400, 40000)
    scratch = os.path.join(ctx.scratch, "api")
    seqs, profs = [], {}
    for i in range(n):
        k = rng.below(100)
        prof = ("clean" if k < 46 else "shifted" if k < 50 else "same_ms" if k < 60 else "preepoch" if k < 70 else "flags" if k < 80
                else "returning" if k < 90 else "samename" if k < 95 else "alias" if k < 98 else "none")
        g = ApiGen(rng.fork(), prof)
        ops = g.generate()
        sid = "s%d" % i
        seqs.append((sid, ops))
        profs[sid] = (prof, g.feat, g.mt.classes)
    results = api_run(ctx, seqs, model, scratch)
    corr, env, crash = [], [], []
    for r in results:
        prof, feat, _ = profs[r["id"]]
        status, detail = api_examine(ctx, r, prof)
        fl = r["flags"]
        ctx.bump("api_profile", prof)
        ctx.bump("api_ops_per_sequence", min(len(r["ops"]) // 5 * 5, 40))
        for f in sorted(feat):
            ctx.bump("api_sequence_feature", f)
        for c in profs[r["id"]][2]:
            ctx.bump("api_mtime_class", c)
        if status == "env":
            env.append((r, detail))
            continue
        if status == "crash":
            crash.append((r, detail))
            continue
        hits = int(fl.get("hits", "0"))
        ctx.bump("api_cache_hits_in_sequence", min(hits, 6))
        ctx.bump("api_proviso", "pairwise_holds" if fl.get("sd") == "1" else
                 "only_step_by_step_holds(returning_stamp)" if fl.get("sw") == "1" else "violated_by_construction")
        inos = [t for t in r["impl"] if t.startswith("i") and t[1:].isdigit()]
        if len(inos) != len(set(inos)):
            ctx.bump("api_inode_reuse", "reused")
        ctx.distinct(("api", " ".join(r["ops"])), hits > 0)
        if hits > 0:
            ctx.sample({"level": "api", "ops": " ".join(r["ops"])[:400], "model": " ".join(r["model_raw"])[:400], "flags": fl})
        if status == "corr":
            corr.append((r, detail))
        poisoned = any(o.startswith("P:") for o in r["ops"])
        ctx.bump("api_oracle", "off_arbitrary_puts" if poisoned else "on")
        for (i, op, got, ref, agrees) in r.get("oracle_fail", []):
            kind = classify(fl, agrees)
            if poisoned:
                continue
            if kind is None:
                ctx.bump("api_stale_answer_excluded_by_proviso",
                         "same_ms_rounded_down" if fl.get("md") != "1" else "same_stamp_only_when_rounded_towards_zero")
                continue
            ctx.bump("api_oracle_failures", kind)
            ctx.violation({"kind": kind, "level": "api"},
                          "cached hasher answers %s, uncached hasher answers %s for op %d (%s) although every content change "
                          "changed the ms mtime or the length" % (got, ref, i, op),
                          {"level": "api", "line": "%s %s" % (r["id"], " ".join(r["ops"])), "op_index": i, "flags": fl,
                           "cached": got, "uncached": ref, "replay_cmd": "./check C12 --replay <this file>"},
                          found_input=True)
    ctx.extra["api_sequences"] = len(results)
    ctx.extra["api_env_skipped"] = len(env)
    if len(env) > max(3, len(results) // 50):
        ctx.violation({"kind": "environment"}, "the file system did not do what the harness asked in %d sequences (first: %s)"
                      % (len(env), env[0][1]), {"level": "api", "line": env[0][0]["model_line"]}, found_input=False)
    if crash:
        r, d = crash[0]
        ctx.violation({"kind": "harness_or_model_crashed"}, "%d sequences crashed: %s" % (len(crash), d),
                      {"level": "api", "line": "%s %s" % (r["id"], " ".join(r["ops"]))}, found_input=False)
    if corr:
        api_disagreement(ctx, model, corr, profs)


def api_disagreement(ctx, model, corr, profs):
    """model != implementation: re-run once, then search the neighbourhood with the oracle."""
    scratch = os.path.join(ctx.scratch, "api_nb")
    confirmed = []
    for r, detail in corr[:8]:
        again = api_run(ctx, [(r["id"], r["ops"])], model, scratch, parallel=False)[0]
        st, d2 = api_examine(ctx, again, profs.get(r["id"], ("?",))[0], count=False)
        if st == "corr":
            confirmed.append((again, d2))
    if not confirmed:
        ctx.extra["api_unconfirmed_disagreements"] = len(corr)
        return
    have_input = any(v[3] for v in ctx.violations)
    r, detail = confirmed[0]
    found = None
    if not have_input:
        # neighbourhood: every prefix up to the disagreeing op followed by a probing session for every configuration and
        # chunk used, with and without a same-size rewrite (fresh mtime) of every file before it
        ops = r["ops"]
        cfgs = sorted({tuple(o.split(":")[1:3]) for o in ops if o.startswith("HO:")})
        chunks = sorted({tuple(o.split(":")[2:4]) for o in ops if o[:2] in ("H:", "X:")})
        names = sorted({o.split(":")[1] for o in ops if o[:2] in ("c:", "w:")})
        variants = []
        for cut in sorted({detail["op_index"] + 1, len(ops)}):
            pre = list(ops[:cut])
            opened = [o for o in pre if o[:2] in ("HO", "HC", "O:", "C")]
            if opened and opened[-1].startswith("HO"):
                pre.append("HC")
            if opened and opened[-1].startswith("O:"):
                pre.append("C")
            for rewrite in (False, True):
                tail = []
                if rewrite:
                    for j, nm in enumerate(names):
                        tail.append("u:%s:%d" % (nm, 1_900_000_000_000_000_000 + j * 1_000_000))
                for (a, tr) in cfgs:
                    tail.append("HO:%s:%s" % (a, tr))
                    for nm in names:
                        for (pos, ln) in chunks:
                            tail.append(("H:%s:%s:%s" if tr == "-" else "X:%s:0:%s") % ((nm, pos, ln) if tr == "-" else (nm, ln)))
                    tail.append("HC")
                variants.append(("nb%d_%d" % (cut, int(rewrite)), pre + tail))
        nb = api_run(ctx, variants, model, scratch)
        for v in nb:
            st, _ = api_examine(ctx, v, "nb", count=False)
            for (i, op, got, ref, agrees) in v.get("oracle_fail", []):
                kind = classify(v["flags"], agrees)
                if kind == "cached_differs_from_uncached":
                    found = (v, i, op, got, ref)
                    break
            if found:
                break
    payload = {"level": "api", "line": "%s %s" % (r["id"], " ".join(r["ops"])), "disagreement": detail,
               "correspondence": "answer of the real HashCache / FileHasher differs from CacheModel (coq/driver/drv_K.ml)",
               "disagreeing_sequences": len(corr), "flags": r["flags"]}
    if found:
        v, i, op, got, ref = found
        payload.update({"line": "%s %s" % (v["id"], " ".join(v["ops"])), "op_index": i, "cached": got, "uncached": ref})
        ctx.violation({"kind": "cached_differs_from_uncached", "level": "api"},
                      "cached hasher answers %s, uncached %s for op %d (%s) (found next to a model/implementation disagreement)"
                      % (got, ref, i, op), payload, found_input=True)
    elif not have_input:
        ctx.violation({"kind": "model_differs_from_implementation", "level": "api"},
                      "op %d %s: implementation %s, model %s (%s); no input violating the property found nearby"
                      % (detail["op_index"], detail["op"], detail["impl"], detail["model"], detail["model_raw"]),
                      payload, found_input=False)
    else:
        core.log("model/implementation disagreement on %d sequences (first: %s)" % (len(corr), detail))


# ================================================================================================
# (b) CLI level

BASE_LEN = 140000


def make_base(rng):
    out = bytearray()
    alphabet = b"abcdefghijklmnopqrstuvwxy"
    while len(out) < BASE_LEN:
        for _ in range(40 + rng.below(30)):
            out.append(alphabet[rng.below(len(alphabet))])
        out.append(10)
    return bytes(out[:BASE_LEN])


def content_of(base, desc):
    d = bytearray(base[:desc["size"]])
    for off, val in desc["mods"]:
        if desc["size"] > 0:
            d[off % desc["size"]] = val
    return bytes(d)


SIZES = [1, 100, 4095, 4096, 4097, 8192, 65535, 65536, 65537, 70000, 131072]
MOD_OFFSETS = [0, 10, 4000, 4095, 4096, 5000, 30000, -10, -1, -4096, -4097, 66000]

# name -> (command string, --in-place, --no-copy)
CLI_TRANSFORMS = {
    "-": None,
    "cat": ("cat", False, False),
    "tr": ("tr a-m n-z", False, False),
    "head": ("head -c 4096", False, False),
    "failz": ("vk_failz", False, False),
    "sed_out": ("sed -i y/abc/xyz/ $IN", False, False),
    "sed_inplace": ("sed -i y/abc/xyz/ $IN", True, False),
    "cat_in": ("cat $IN", False, False),
    "cat_in_nocopy": ("cat $IN", False, True),
    "none": ("<none>", False, False),
    "head2": ("vk_head2", False, False),
    # KC3b: the same transform id "sed y/abc/xyz/ $IN --in-place" for two different transforms
    "sed_flagtext": ("sed y/abc/xyz/ $IN --in-place", False, False),
    "sed_print_inplace": ("sed y/abc/xyz/ $IN", True, False),
    # two different programs with the same file name and the same (empty) argument text, and whitespace variants
    "norm_v1": ("v1/vk_norm", False, False),
    "norm_v2": ("v2/vk_norm", False, False),
    "cat_blank": ("cat ", False, False),
    "head_2blanks": ("head  -c 4096", False, False),
}


class CliGen:
    """A history: list of steps {"edits": [...], "run": {...}}; everything explicit so that it replays."""

    def __init__(self, rng, profile, nsteps):
        self.r = rng
        self.profile = profile
        self.nsteps = nsteps
        self.names = {}          # path -> file object id
        self.objs = {}           # id -> {"desc":..., "mt":...}
        self.nobj = 0
        self.mt = Mtimes(rng.fork(), preepoch=(profile == "preepoch"), pre_jump=(1, 10))
        self.nname = 0
        self.feat = set()
        # few sizes per history: files of equal size are what the hashing stages (and so the cache) work on
        self.sizes = [rng.choice(SIZES) for _ in range(3)]

    def fresh(self, old=None):
        return self.mt.pick(old)

    def new_name(self):
        self.nname += 1
        return "%s/f%d" % (self.r.choice(["a", "b", "a/sub"]), self.nname)

    def desc(self, size=None):
        r = self.r
        if size is None:
            size = r.choice(self.sizes) if r.chance(9, 10) else r.choice(SIZES)
        mods = []
        for _ in range(r.choice([0, 0, 0, 1, 1, 2])):
            mods.append([r.choice(MOD_OFFSETS), r.choice([65, 66, 67])])
        if r.chance(1, 10):
            mods.append([0, 122])
        return {"size": size, "mods": mods}

    def new_obj(self, desc, mt):
        self.nobj += 1
        self.objs[self.nobj] = {"desc": desc, "mt": mt}
        return self.nobj

    def edit(self):
        n = len(self.mt.classes)
        e = self.edit1()
        if len(self.mt.classes) > n:
            e["mt_class"] = self.mt.classes[-1]
        return e

    def edit1(self):
        r = self.r
        paths = sorted(self.names)
        k = r.below(14)
        if len(paths) < 8 or k == 0:
            p = self.new_name()
            if paths and r.chance(3, 5):        # a copy or a near copy of an existing file
                src = self.objs[self.names[r.choice(paths)]]["desc"]
                d = {"size": src["size"], "mods": [list(m) for m in src["mods"]]}
                if r.chance(1, 3):
                    d["mods"].append([r.choice(MOD_OFFSETS), 68])
            else:
                d = self.desc()
            mt = self.fresh()
            self.names[p] = self.new_obj(d, mt)
            self.feat.add("create")
            return {"op": "create", "path": p, "desc": d, "mt": mt}
        p = r.choice(paths)
        o = self.objs[self.names[p]]
        if k in (1, 2, 3, 4):
            d = {"size": o["desc"]["size"], "mods": [list(m) for m in o["desc"]["mods"]] + [[r.choice(MOD_OFFSETS), 69 + r.below(8)]]}
            mt = self.fresh(o["mt"])
            o["desc"], o["mt"] = d, mt
            self.feat.add("rewrite_same_size")
            return {"op": "write", "path": p, "desc": d, "mt": mt}
        if k == 5:
            d, mt = self.desc(), self.fresh(o["mt"])
            o["desc"], o["mt"] = d, mt
            self.feat.add("rewrite_other_size")
            return {"op": "write", "path": p, "desc": d, "mt": mt}
        if k in (6, 7):
            # append / truncate; the proviso allows keeping the mtime when the length changes (each (mtime, length)
            # pair is used at most once per file object, fresh mtimes are unique)
            if k == 6:
                size = o["desc"]["size"] + r.choice([1, 7, 4096])
            else:
                size = max(1, o["desc"]["size"] - r.choice([1, 100, 4096]))
            used = o.setdefault("stamps", set())
            used.add((o["mt"], o["desc"]["size"]))
            if self.profile == "clean" and r.chance(1, 3) and (o["mt"], size) not in used and size != o["desc"]["size"]:
                mt = o["mt"]
                self.feat.add("length_change_keeps_mtime")
            else:
                mt = self.fresh(o["mt"])
            used.add((mt, size))
            nd = {"size": size, "mods": [list(m) for m in o["desc"]["mods"] if m[0] >= 0]}
            o["desc"], o["mt"] = nd, mt
            how = "append" if k == 6 else "truncate"
            self.feat.add(how)
            return {"op": "write", "path": p, "desc": nd, "mt": mt, "how": how, "keeps_mtime": mt in [x[0] for x in used if x[1] != size]}
        if k == 8:
            mt = self.fresh(o["mt"])
            o["mt"] = mt
            self.feat.add("touch")
            return {"op": "touch", "path": p, "mt": mt}
        if k in (9, 10):
            q = self.new_name() if r.chance(2, 3) else r.choice(paths)
            if q != p:
                self.names[q] = self.names.pop(p)
            self.feat.add("rename")
            return {"op": "rename", "path": p, "to": q}
        if k == 11:
            del self.names[p]
            q = p if r.chance(1, 2) else self.new_name()
            d = self.desc(o["desc"]["size"] if r.chance(2, 3) else None)
            mt = self.fresh(o["mt"])
            self.names[q] = self.new_obj(d, mt)
            self.feat.add("delete_recreate")
            return {"op": "recreate", "path": p, "to": q, "desc": d, "mt": mt}
        if k == 12:
            q = self.new_name()
            self.names[q] = self.names[p]
            self.feat.add("hard_link")
            return {"op": "link", "path": p, "to": q}
        if len(paths) > 8:
            del self.names[p]
            self.feat.add("unlink")
            return {"op": "unlink", "path": p}
        mt = self.fresh(o["mt"])
        o["mt"] = mt
        return {"op": "touch", "path": p, "mt": mt}

    def run_cfg(self, prev):
        r = self.r
        cfg = dict(prev) if prev and r.chance(1, 2) else {"hash_fn": "metro", "transform": "-", "max_prefix": None,
                                                          "max_suffix": None, "skip_content": False, "kill_ms": None}
        cfg["kill_ms"] = None
        if r.chance(1, 2):
            cfg["hash_fn"] = r.choice(HASH_FNS)
        if r.chance(1, 3):
            cfg["max_prefix"] = r.choice([None, 1024, 8192, 70000])
        if r.chance(1, 5):
            cfg["max_suffix"] = r.choice([None, 1024, 4096])
        if r.chance(1, 8):
            cfg["skip_content"] = not cfg["skip_content"]
        if self.profile == "flags":
            cfg["transform"] = r.choice(["sed_out", "sed_inplace", "cat_in", "cat_in_nocopy"])
        elif self.profile == "alias":
            cfg["transform"] = r.choice(["sed_flagtext", "sed_print_inplace"])
        elif self.profile == "samename":
            cfg["transform"] = r.choice(["norm_v1", "norm_v2", "norm_v1", "norm_v2", "cat", "cat_blank", "head", "head_2blanks"])
        elif self.profile == "none":
            cfg["transform"] = r.choice(["-", "none"])
            cfg["skip_content"] = False
        elif r.chance(1, 4):
            cfg["transform"] = r.choice(["-", "cat", "tr", "head", "failz"])
        if r.chance(1, 8):
            cfg["kill_ms"] = r.choice([0, 2, 5, 10, 20, 40])
        return cfg

    def generate_returning(self, refreshed):
        """run; touch; [run, same configuration]; same-size rewrite that sets the first mtime back; run.
        Triples fa = fb (duplicates) and fc (same size, other content); fb is rewritten to fc's content."""
        r = self.r
        cfg = self.run_cfg(None)
        cfg["kill_ms"] = None
        if cfg["transform"] in ("failz", "head"):
            cfg["transform"] = "-"
        edits0, triples = [], []
        for t in range(2 + r.below(3)):
            size = r.choice(self.sizes)
            d1 = self.desc(size)
            d2 = {"size": size, "mods": [list(m) for m in d1["mods"]] + [[r.choice([10, 4500, -10, 30000]) , 70 + r.below(5)]]}
            names = [self.new_name() for _ in range(3)]
            for nm, d in zip(names, (d1, d1, d2)):
                mt = self.fresh()
                edits0.append({"op": "create", "path": nm, "desc": d, "mt": mt, "mt_class": self.mt.classes[-1]})
            triples.append((names, d2, edits0[-2]["mt"]))
        touches = []
        for names, d2, mt1 in triples:
            mt = self.fresh(mt1)
            touches.append({"op": "touch", "path": names[1], "mt": mt, "mt_class": self.mt.classes[-1]})
        rewrites = [{"op": "write", "path": names[1], "desc": d2, "mt": mt1, "mt_class": "returns_2_back"}
                    for names, d2, mt1 in triples]
        self.feat.add("returning_stamp")
        steps = [{"edits": edits0, "run": dict(cfg)}]
        if refreshed:
            steps.append({"edits": touches, "run": dict(cfg)})
            steps.append({"edits": rewrites, "run": dict(cfg)})
        else:
            steps.append({"edits": touches + rewrites, "run": dict(cfg)})
        return steps

    def generate(self):
        if self.profile in ("returning", "returning_refreshed"):
            return self.generate_returning(self.profile == "returning_refreshed")
        steps, prev = [], None
        for i in range(self.nsteps):
            edits = [self.edit() for _ in range((9 + self.r.below(6)) if i == 0 else (1 + self.r.below(4)))]
            cfg = self.run_cfg(prev)
            prev = cfg
            steps.append({"edits": edits, "run": cfg})
        return steps


def apply_cli_edit(tree, base, e, stats):
    p = os.path.join(tree, e["path"])
    op = e["op"]
    if op in ("create", "write"):
        os.makedirs(os.path.dirname(p), exist_ok=True)
        data = content_of(base, e["desc"])
        if op == "create":
            with open(p, "xb") as f:
                f.write(data)
        elif e.get("how") == "append":
            old = os.path.getsize(p)
            with open(p, "ab") as f:
                f.write(data[old:])
        elif e.get("how") == "truncate":
            os.truncate(p, e["desc"]["size"])
        else:
            fd = os.open(p, os.O_WRONLY | os.O_TRUNC)          # same inode
            try:
                os.write(fd, data)
            finally:
                os.close(fd)
        os.utime(p, ns=(e["mt"], e["mt"]))
    elif op == "touch":
        os.utime(p, ns=(e["mt"], e["mt"]))
    elif op == "rename":
        q = os.path.join(tree, e["to"])
        os.makedirs(os.path.dirname(q), exist_ok=True)
        os.rename(p, q)
    elif op == "recreate":
        ino = os.stat(p).st_ino
        last = os.stat(p).st_nlink == 1
        os.unlink(p)
        q = os.path.join(tree, e["to"])
        os.makedirs(os.path.dirname(q), exist_ok=True)
        with open(q, "xb") as f:
            f.write(content_of(base, e["desc"]))
        os.utime(q, ns=(e["mt"], e["mt"]))
        if last:
            stats["recreate"] = stats.get("recreate", 0) + 1
            if os.stat(q).st_ino == ino:
                stats["inode_reused"] = stats.get("inode_reused", 0) + 1
    elif op == "link":
        q = os.path.join(tree, e["to"])
        os.makedirs(os.path.dirname(q), exist_ok=True)
        os.link(p, q)
    elif op == "unlink":
        os.unlink(p)
    else:
        raise RuntimeError("unknown edit " + op)


def cli_args(cfg, cached):
    a = ["group", "-f", "json", "--hash-fn", cfg["hash_fn"]]
    if cached:
        a.append("--cache")
    t = CLI_TRANSFORMS[cfg["transform"]]
    if t:
        a += ["--transform", t[0]]
        if t[1]:
            a.append("--in-place")
        if t[2]:
            a.append("--no-copy")
    if cfg.get("max_prefix"):
        a += ["--max-prefix-size", str(cfg["max_prefix"])]
    if cfg.get("max_suffix"):
        a += ["--max-suffix-size", str(cfg["max_suffix"])]
    if cfg.get("skip_content"):
        a.append("--skip-content-hash")
    return a + ["tree"]


def report_body(stdout):
    try:
        d = json.loads(stdout)
    except Exception:
        return ("unparsable", stdout[:200])
    return [(g["file_len"], g["file_hash"], g["files"]) for g in d.get("groups", [])]


def cli_exec(fclones, hdir, bindir, steps, base, order_rng=None, stats=None):
    """Execute a history from scratch.  Returns (index of first failing step or None, detail, stats)."""
    stats = stats if stats is not None else {}
    shutil.rmtree(hdir, ignore_errors=True)
    tree = os.path.join(hdir, "tree")
    for d in ("tree/a/sub", "tree/b", "xdg", "tmp"):
        os.makedirs(os.path.join(hdir, d))
    for d in SAMENAME:              # v1/vk_norm, v2/vk_norm relative to the working directory of fclones
        os.symlink(os.path.join(os.path.dirname(os.path.abspath(bindir)), d), os.path.join(hdir, d))
    env = dict(os.environ)
    env.update({"XDG_CACHE_HOME": os.path.join(hdir, "xdg"), "TMPDIR": os.path.join(hdir, "tmp"),
                "FCLONES_VERIF_DISK_KIND": "ssd", "PATH": bindir + ":" + env.get("PATH", ""), "LC_ALL": "C",
                "HOME": os.path.join(hdir, "home-not-used")})
    assert os.path.isabs(env["XDG_CACHE_HOME"])

    def run(cfg, cached, kill_ms=None):
        cmd = [fclones] + cli_args(cfg, cached)
        if kill_ms is not None:
            p = subprocess.Popen(cmd, cwd=hdir, env=env, stdin=subprocess.DEVNULL, stdout=subprocess.DEVNULL,
                                 stderr=subprocess.DEVNULL)
            time.sleep(kill_ms / 1000.0)
            p.send_signal(signal.SIGKILL)
            p.wait()
            return None
        # stdin at EOF: Transform::new probes the program with inherited stdio and kills only the direct child; a
        # grandchild still reading our stdin would keep the stdout pipe open for ever
        p = subprocess.run(cmd, cwd=hdir, env=env, stdin=subprocess.DEVNULL, stdout=subprocess.PIPE,
                           stderr=subprocess.PIPE, timeout=300)
        return (p.returncode, report_body(p.stdout.decode("utf-8", "replace")), p.stderr.decode("utf-8", "replace")[-600:])

    fail = None
    for i, st in enumerate(steps):
        for e in st["edits"]:
            apply_cli_edit(tree, base, e, stats)
        cfg = st["run"]
        if cfg.get("kill_ms") is not None:
            run(cfg, True, cfg["kill_ms"])                    # an interrupted run, then a full one on the same state
            stats["killed"] = stats.get("killed", 0) + 1
        first_cached = order_rng.chance(1, 2) if order_rng else True
        if first_cached:
            c = run(cfg, True)
            u = run(cfg, False)
        else:
            u = run(cfg, False)
            c = run(cfg, True)
        stats["runs"] = stats.get("runs", 0) + 1
        stats.setdefault("groups", []).append(len(u[1]) if isinstance(u[1], list) else -1)
        if not os.path.exists(os.path.join(hdir, "xdg", "fclones", "db")):
            return i, {"what": "the cache was not created under the scratch XDG_CACHE_HOME", "stderr": c[2]}, stats
        if c[0] != u[0] or c[1] != u[1]:
            fail = (i, {"what": "report of the cached run differs from the uncached run on the same tree state",
                        "step": i, "config": cfg, "cached_exit": c[0], "uncached_exit": u[0],
                        "cached_groups": c[1][:6] if isinstance(c[1], list) else c[1],
                        "uncached_groups": u[1][:6] if isinstance(u[1], list) else u[1],
                        "cached_stderr": c[2][-300:], "cmd_cached": " ".join(cli_args(cfg, True)),
                        "cmd_uncached": " ".join(cli_args(cfg, False))})
            break
    if fail:
        return fail[0], fail[1], stats
    return None, None, stats


def neutralise(steps, profile):
    """the same history with the trigger of the known class removed"""
    s = json.loads(json.dumps(steps))
    if profile == "returning":          # KC4: the restored mtimes become fresh ones
        k = 0
        for st in s:
            for e in st["edits"]:
                if e.get("mt_class") == "returns_2_back":
                    k += 1
                    e["mt"] = 1_900_000_000_000_000_000 + k * 1_000_000
    return s


def shrink(fclones, hdir, bindir, steps, base, budget=24):
    """greedy: drop whole earlier steps' runs / edits while the history still fails at its last step"""
    cur = steps
    idx, _, _ = cli_exec(fclones, hdir, bindir, cur, base)
    if idx is None:
        return steps
    cur = cur[:idx + 1]
    changed = True
    while changed and budget > 0:
        changed = False
        for i in range(len(cur) - 1):           # merge step i into step i+1 (drops run i)
            if any(e.get("mt_class") == "returns_2_back" for e in cur[i + 1]["edits"]):
                continue                        # run i is what re-hashes the touched state: without it the history is KC4
            cand = cur[:i] + [{"edits": cur[i]["edits"] + cur[i + 1]["edits"], "run": cur[i + 1]["run"]}] + cur[i + 2:]
            budget -= 1
            j, _, _ = cli_exec(fclones, hdir, bindir, cand, base)
            if j is not None and j == len(cand) - 1:
                cur, changed = cand, True
                break
            if budget <= 0:
                break
    return cur


def cli_history_check(ctx, fclones, bindir, base, hid, profile, steps, order_seed):
    hdir = os.path.join(ctx.scratch, "cli", hid)
    idx, detail, stats = cli_exec(fclones, hdir, bindir, steps, base, order_rng=core.SplitMix64(order_seed))
    res = {"hid": hid, "profile": profile, "steps": steps, "stats": stats, "fail": None}
    if idx is not None:
        kind = "cached_report_differs_from_uncached"
        small = shrink(fclones, hdir, bindir, steps, base)
        if profile in KINDS_CLI:
            j, _, _ = cli_exec(fclones, hdir, bindir, neutralise(small, profile), base)
            if j is None:
                kind = KINDS_CLI[profile]
        _, detail2, _ = cli_exec(fclones, hdir, bindir, small, base)
        res["fail"] = {"kind": kind, "detail": detail2 or detail, "steps": small}
    shutil.rmtree(hdir, ignore_errors=True)
    return res


KINDS_CLI = {"returning": KINDS["returning"]}


def corpus_histories():
    d = os.path.join(core.VERIF, "corpus", "C12")
    out = []
    if os.path.isdir(d):
        for f in sorted(os.listdir(d)):
            if f.endswith(".json"):
                j = json.load(open(os.path.join(d, f)))
                out.append((f[:-5], j.get("profile", "clean"), j["steps"]))
    return out


def cli_level(ctx, only=None):
    fclones = core.build_fclones()
    core.log("[C12] fclones binary ready")
    bindir = os.path.join(ctx.scratch, "bin")
    write_helpers(bindir)
    base_rng = core.SplitMix64(12)          # fixed: replay files do not carry the 140 kB base
    base = make_base(base_rng)
    rng = ctx.rng.fork()
    jobs = []
    if only is not None:
        jobs.append(("replay", only.get("profile", "clean"), only["steps"], 1))
    else:
        for name, prof, steps in corpus_histories():
            jobs.append(("corpus_" + name, prof, steps, rng.next()))
        n = ctx.pick(36, 600)
        for i in range(n):
            k = rng.below(100)
            prof = ("clean" if k < 62 else "preepoch" if k < 70 else "flags" if k < 78 else "returning_refreshed" if k < 88
                    else "returning" if k < 90 else "samename" if k < 95 else "alias" if k < 98 else "none")
            nsteps = 1 + rng.below(6)
            g = CliGen(rng.fork(), prof, nsteps)
            steps = g.generate()
            jobs.append(("h%d" % i, prof, steps, rng.next()))
    with ThreadPoolExecutor(max_workers=max(2, core.NCPU - 2)) as ex:
        results = list(ex.map(lambda j: cli_history_check(ctx, fclones, bindir, base, j[0], j[1], j[2], j[3]), jobs))
    tot = {"runs": 0, "recreate": 0, "inode_reused": 0, "killed": 0}
    for r in results:
        st = r["stats"]
        for k in tot:
            tot[k] += st.get(k, 0)
        ctx.count(st.get("runs", 0))
        ctx.bump("cli_history_length", len(r["steps"]))
        ctx.bump("cli_profile", r["profile"])
        for s in r["steps"]:
            c = s["run"]
            ctx.bump("cli_hash_fn", c["hash_fn"])
            ctx.bump("cli_transform", c["transform"])
            ctx.bump("cli_max_prefix", c.get("max_prefix"))
            ctx.bump("cli_interrupted_before", c.get("kill_ms") is not None)
            for e in s["edits"]:
                ctx.bump("cli_edit", e["op"] + ("_" + e["how"] if e.get("how") else "") + ("_keeping_mtime" if e.get("keeps_mtime") else ""))
                if e.get("mt_class"):
                    ctx.bump("cli_mtime_class", e["mt_class"])
        cfgs = [json.dumps(s["run"], sort_keys=True) for s in r["steps"]]
        ctx.bump("cli_config_switches_in_history", sum(1 for a, b in zip(cfgs, cfgs[1:]) if a != b))
        for g in st.get("groups", []):
            ctx.bump("cli_groups_in_report", min(g, 8))
        nontrivial = len(r["steps"]) > 1 and any(g > 0 for g in st.get("groups", []))
        ctx.distinct(("cli", json.dumps(r["steps"], sort_keys=True)), nontrivial)
        if nontrivial:
            ctx.sample({"level": "cli", "profile": r["profile"], "steps": len(r["steps"]),
                        "configs": [s["run"] for s in r["steps"]][:3],
                        "first_edits": [e["op"] for e in r["steps"][-1]["edits"]]}, cap=9)
        if r["fail"]:
            f = r["fail"]
            ctx.bump("cli_oracle_failures", f["kind"])
            d = f["detail"] or {}
            ctx.violation({"kind": f["kind"], "level": "cli"},
                          "`fclones %s` reports other groups than `fclones %s` on the same tree after a history of %d steps (%s)"
                          % (d.get("cmd_cached"), d.get("cmd_uncached"), len(f["steps"]), r["profile"]),
                          {"level": "cli", "profile": r["profile"], "steps": f["steps"], "detail": d, "history_id": r["hid"],
                           "how_to_replay": "./check C12 --replay <this file>  (tree rebuilt from `steps`; env XDG_CACHE_HOME, "
                                            "TMPDIR inside the scratch dir, FCLONES_VERIF_DISK_KIND=ssd)"},
                          found_input=True)
    ctx.bump("cli_delete_recreate", "inode_reused", tot["inode_reused"])
    ctx.bump("cli_delete_recreate", "new_inode", tot["recreate"] - tot["inode_reused"])
    ctx.extra["cli_histories"] = len(results)
    ctx.extra["cli_runs_compared"] = tot["runs"]
    ctx.extra["cli_interrupted_runs"] = tot["killed"]


# ================================================================================================

def run(ctx):
    ctx.rule = ("(a) API: PRNG op sequences (edits create/rewrite same size/other size/append/truncate/touch/rename/unlink+create/"
                "hard link on 1-4 small files sharing prefixes and suffixes; sessions of HashCache open/put/get/close and of "
                "FileHasher::new_cached hash_file/hash_transformed under 2 algorithms x up to 4 transform configurations per "
                "sequence); mtimes from a pool (whole seconds, same-second pairs incl. from/to .000, +-1 ms, older mtimes restored, "
                "pre-epoch, epoch edge; unique ms stamps so the proviso holds by construction); profiles clean / same_ms (proviso "
                "violated on purpose: the model must predict the stale answer) / preepoch / flags (--in-place, --no-copy variants) / "
                "alias, none (transform ids that coincided before ea68843: regression) / returning (run; touch; [run]; same-size rewrite that "
                "sets the first mtime back; run — the step-by-step proviso holds, the pairwise one does not); one evaluation = one op answer compared with the model; "
                "non-trivial = at least one call answered from the cache; distinct = distinct op sequence.  "
                "(b) CLI: histories of 1..6 steps (1-11 edits; `group --cache` with hash function / transform / prefix / suffix / "
                "skip-content switches, optionally preceded by a SIGKILLed run) over trees of files of sizes around 4 KiB and "
                "64 KiB sharing a 140 kB base with byte differences in prefix, middle and suffix; one evaluation = one "
                "cached-vs-uncached report comparison; non-trivial = more than one step and some group reported")
    ctx.assumptions = [
        "stamp_determines: at any two moments equal (dev, ino, ms mtime as the cache computes it = rounded towards zero, length) => equal content "
        "(the property's proviso; checked per generated sequence by the extracted stamp_determines_b, proved sound)",
        "nul_free: transform command strings contain no NUL byte (then the sled tree id determines the configuration: C12_tree_id_injective)",
        "no write to a file between the stat and the read of one hasher call; the transform is a function of the file content",
        "sled / typed-sled store and return what was put (only get/put/hash results are observed; flusher thread and layout not modelled)",
    ]
    ctx.trusted.append("C12: transform table shared by hand between drv_K.ml, cache.rs and c12.py; reference hashes from the "
                       "metrohash/xxhash-rust/blake3/sha2/sha3 crates; kernel semantics of rename/link/unlink/utimensat; "
                       "inode numbers of new files are taken from the implementation run and fed to the model")
    t0 = time.time()
    ctx.use_coq(extra_targets=("Extract_K.vo",))
    model = core.build_model("K")
    core.log("[C12] coq + model ready after %.0f s" % (time.time() - t0))
    core.build_harness(["cache"])
    core.log("[C12] harness ready after %.0f s (waits for the shared cargo lock included)" % (time.time() - t0))
    if ctx.replay:
        rp = json.load(open(ctx.replay))
        if rp.get("level") == "cli":
            cli_level(ctx, only=rp)
        else:
            line = rp["line"].split()
            res = api_run(ctx, [(line[0], line[1:])], model, os.path.join(ctx.scratch, "api"), parallel=False)
            st, detail = api_examine(ctx, res[0], "replay")
            core.log("replay: status=%s detail=%s flags=%s" % (st, detail, res[0]["flags"]))
            core.log("impl : " + " ".join(res[0]["impl"]))
            core.log("model: " + " ".join(res[0]["model_raw"]))
            if st in ("corr", "crash"):
                ctx.violation({"kind": "model_differs_from_implementation", "level": "api"}, str(detail),
                              {"level": "api", "line": rp["line"], "disagreement": detail}, found_input=False)
            for (i, op, got, ref, agrees) in res[0].get("oracle_fail", []):
                kind = classify(res[0]["flags"], agrees)
                if kind:
                    ctx.violation({"kind": kind, "level": "api"}, "cached %s, uncached %s for op %d (%s)" % (got, ref, i, op),
                                  {"level": "api", "line": rp["line"], "op_index": i}, found_input=True)
        return
    t0 = time.time()
    api_level(ctx, model)
    core.log("[C12] API level done in %.0f s (%d evaluations)" % (time.time() - t0, ctx.evaluations))
    t0 = time.time()
    cli_level(ctx)
    core.log("[C12] CLI level done in %.0f s" % (time.time() - t0))
    # a file rewritten in place DURING a cached run (external writer at a precise point): the next cached run equals the uncached one
    from . import midrun_rt
    midrun_rt.midrun_overwrite_check(ctx, ctx.pick(30, 400))
    ctx.extra["exhaustive"] = False
