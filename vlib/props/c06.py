"""C06 — replica counting honours links, isolation and the replication filter (engine G).

Proof obligations: coq/Props_C06.v (counting rule, corollaries for links / --match-links / --isolate,
reported iff the count passes the filter, groups list the whole class).  Correspondence:
  * pure counting cases (no disk): FileSubGroup::group / matches_strictly / redundant_count /
    missing_count / unique_count of the implementation vs the extracted model vs a python reference of
    the rule from the property text, on generated link structures x roots x flags;
  * generated trees (weighted towards hard links, --isolate, --match-links, -S) through group_files vs the
    model vs the partition oracle;
  * root spelling independence (F14 repaired): the same tree with the roots spelled r, ./r, r/, x/../r,
    through a symlink and absolute must give the same report body.
"""
import json

from .. import core
from . import grp_common as G


def pure_cases(ctx, eng, n):
    cases = [G.gen_q_case(ctx.rng.fork()) for _ in range(n)]
    lines = [c[0] for c in cases]
    impl = G.run_grp_lines(lines, ctx.scratch + "/q")
    model = core.run_lines_parallel(eng.model, lines)
    bad_corr = None
    for (line, roots, files, repl, by_id), a, m in zip(cases, impl, model):
        ctx.count()
        ctx.bump("q_roots", len(roots))
        ctx.bump("q_files", len(files))
        ctx.bump("q_by_id", by_id)
        ctx.bump("q_filter", repl[0])
        k, rep = G.q_reference(roots, files, repl, by_id)
        ctx.distinct(line, len(files) > 1)
        f = a.split()
        if len(f) != 5 or int(f[0]) != k or (f[1] == "1") != rep:
            ctx.violation({"kind": "count_rule"},
                          "FileSubGroup::group / matches_strictly disagree with the counting rule of the property: case %s -> "
                          "implementation '%s', rule says count=%d reported=%s" % (line, a, k, rep),
                          {"case": line, "implementation": a, "model": m, "reference": [k, rep]}, found_input=True)
        elif a != m and bad_corr is None:
            bad_corr = (line, a, m)
    if bad_corr:
        ctx.violation({"kind": "model_ne_impl"}, "pure counting case: model '%s' != implementation '%s' on %s" % (bad_corr[2], bad_corr[1], bad_corr[0]),
                      {"case": bad_corr[0], "implementation": bad_corr[1], "model": bad_corr[2]}, found_input=False)


def spelling(ctx, eng, specs):
    """same tree, roots spelled differently -> same report body"""
    twins = []
    for s in specs:
        t = json.loads(json.dumps(s))
        t["roots"] = [[p, "plain"] for p, _ in s["roots"]]
        twins.append(t)
    ra = eng.run_specs(specs)
    rb = eng.run_specs(twins)
    G.process_results(ctx, eng, ra)
    for a, b in zip(ra, rb):
        ctx.count()
        if G.rel_groups(a) != G.rel_groups(b) or a["out"]["impl"].startswith(("ERR", "PANIC")) != b["out"]["impl"].startswith(("ERR", "PANIC")):
            ctx.violation({"kind": "spelling_changes_report", "isolate": bool(a["spec"]["opts"].get("isolate"))},
                          "the report depends on how the roots are spelled: %s vs plain" % json.dumps(a["spec"]["roots"]),
                          G.replay_payload(a, {"plain_spelling_report": b["out"].get("impl", "")[:3000]}), found_input=True)


def run(ctx):
    ctx.rule = ("(a) pure counting cases: 0-3 roots (nested / repeated) x 1-7 paths inside / outside the roots x inode pools (hard links "
                "inside and across roots) x by_id x rf-over / rf-under; (b) generated trees weighted towards hard links, --isolate, "
                "--match-links, -S, root spellings; (c) spelling twins: every tree with a non-plain root spelling is re-run with plain "
                "spellings; non-trivial = more than one member / some group reported; distinct = distinct case line / spec")
    ctx.assumptions = list(G.COMMON_ASSUMPTIONS)
    ctx.trusted += G.COMMON_TRUSTED
    ctx.use_coq()
    if ctx.replay:
        G.run_replay(ctx, "C06")
        return
    eng, _ = G.run_generated(ctx, "C06", ctx.pick(300, 4000))
    pure_cases(ctx, eng, ctx.pick(3000, 60000))
    sp = []
    while len(sp) < ctx.pick(60, 800):
        s = G.gen_spec(ctx.rng.fork(), "C06", small=True)
        if any(h != "plain" for _, h in s["roots"]):
            if ctx.rng.chance(2, 3) and G.isolate_valid(s["opts"], len(s["roots"])):
                s["opts"]["isolate"] = True
            sp.append(s)
    spelling(ctx, eng, sp)
    # input-mode dimension (CLI layer): the same roots on --stdin (with --match-links a path listed twice is a false replica)
    st = []
    for _ in range(ctx.pick(16, 200)):
        x = G.gen_stdin_spec(ctx.rng.fork(), "C06")
        if ctx.rng.chance(1, 2):
            x["opts"]["match_links"] = True
        st.append(x)
    G.stdin_mode_check(ctx, eng, st)

    tw = []
    for _ in range(ctx.pick(10, 120)):
        x = G.gen_spec(ctx.rng.fork(), "C06", small=True)
        tw.append(G.add_boundary_twins(ctx.rng.fork(), x))
    G.process_results(ctx, eng, eng.run_specs(tw))
    # --follow-links over link targets in every spelling (absolute through another link, with `..`, chains): one file = one replica
    from . import links_rt
    links_rt.follow_alias_check(ctx, ctx.pick(40, 500))
    # hard-linked files whose first-tried path cannot be processed (path-specific transform failure), length-changing transform
    links_rt.hardlink_fallback_transform_check(ctx, ctx.pick(12, 120))
