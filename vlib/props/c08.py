"""C08 — dedupe obeys keep/drop patterns, priorities, link sets and -n (engine D).

Proof obligations: coq/Props_C08.v over coq/DedupeModel.v (partition / script / merge).
Correspondence (API level): harness/src/bin/ddp.rs builds generated duplicate groups as real files
(hard-link sets, 1-3 roots, symlinks, non-regular / missing / changed-length members, tied and
distinct times, nesting levels), calls the real `partition` and `dedupe` and prints the result next
to the model input; the extracted model (coq/driver/drv_D.ml) must give the same partition (exact
order) and the same command list per device class.
Oracle: an independent Python reading of the property (sub-groups, forced-kept, lexicographic rank,
n) evaluated on the implementation's own output.
CLI layer (C08_inherit): tree -> `fclones group ...` -> report -> `fclones remove --dry-run` with the
options only in the recorded header vs. given explicitly against a header without them.
"""
import json
import os
import shutil
import subprocess
from concurrent.futures import ThreadPoolExecutor

from .. import core

DDP = os.path.join(core.BIN, "ddp")
PRIO_NAMES = ["top", "bottom", "newest", "oldest", "most-recently-modified", "least-recently-modified",
              "most-recently-accessed", "least-recently-accessed", "most-recent-status-change",
              "least-recent-status-change", "most-nested", "least-nested"]
OPS = ["rm", "sl", "hl", "rl", "mv"]
DEV2_ROOT = "/dev/shm"


# ------------------------------------------------------------------------------------------------
# generator

def tb_not_last(prio):
    """K9 class: a `top`/`bottom` priority that is not the last element of the list."""
    return any(p in (0, 1) for p in prio[:-1])


def gen_case(rng, cid, dev2_ok, scratch, small=False, large=False):
    nroots = 1 + rng.below(3)
    roots = ["r%d" % i for i in range(nroots)]
    glen = 1 + rng.below(8)
    k = 2 + rng.below(3 if small else 11)
    if large:
        k = 24 + rng.below(17)      # more than 20 sub-groups: beyond the insertion-sort range of the sort routines
    inodes, members = [], []
    file_inodes = []

    def new_path(j):
        r = rng.choice(roots)
        depth = rng.below(4)
        dirs = [rng.choice(["d0", "d1"]) for _ in range(depth)]
        name = rng.choice(["k", "x", "f"]) + str(j) + rng.choice([".a", ".b", ""])
        if rng.chance(1, 6):
            # a name that is not valid UTF-8 (%FF = the raw byte 0xFF, decoded by the harness): the name patterns see it lossily
            # converted (U+FFFD), which `*`, `?` and the literal parts around it still match
            k = rng.choice([1, 1, rng.below(len(name) + 1)])
            # raw 0xFF (invalid UTF-8), backslash, newline, ESC: characters whose escaped (report) spelling differs from the text
            name = name[:k] + rng.choice(["%FF", "%FF", "%5C", "%0A", "%1B"]) + name[k:]
        return "/".join([r] + dirs + [name])

    def times():
        return {"mtime": rng.choice([-3000, -2000, -2000, -1000, -1000, 1000, 2000]) if rng.chance(1, 6)
                else rng.choice([-3000, -2000, -2000, -1000]),
                "atime": rng.choice([-500, -400, -400, -300]),
                "gap_ms": 15 if rng.chance(1, 3) else 0, "gap2_ms": 15 if rng.chance(1, 4) else 0}

    for j in range(k):
        x = rng.below(100) if not large else 50 + rng.below(50)     # large groups: distinct regular files (many sub-groups)
        p = new_path(j)
        if x < 22 and file_inodes:
            members.append({"path": p, "ino": rng.choice(file_inodes), "kind": "link"})
        elif x < 30 and members:
            members.append({"path": p, "ino": None, "kind": "symlink", "target": rng.below(len(members))})
        elif x < 34:
            ino = dict(kind="dir", len=0, **times())
            inodes.append(ino)
            members.append({"path": p, "ino": len(inodes) - 1, "kind": "link"})
        elif x < 37:
            ino = dict(kind="fifo", len=0, **times())
            inodes.append(ino)
            members.append({"path": p, "ino": len(inodes) - 1, "kind": "link"})
        elif x < 38 and rng.chance(1, 3):
            members.append({"path": p, "ino": None, "kind": "missing"})
        elif x < 39 and rng.chance(1, 3):
            members.append({"path": p, "ino": None, "kind": "dangling"})
        else:
            ln = glen
            if rng.chance(1, 10):
                ln = glen + rng.choice([-1, 1, 3]) if glen > 1 else glen + 1
            ino = dict(kind="file", len=ln, dev2=bool(dev2_ok and rng.chance(1, 7)), **times())
            inodes.append(ino)
            file_inodes.append(len(inodes) - 1)
            members.append({"path": p, "ino": len(inodes) - 1, "kind": "link"})
    # creation order of the inodes is a dimension of its own (btime / ctime order vs report order)
    order = rng.shuffle(list(range(len(inodes))))
    remap = {old: new for new, old in enumerate(order)}
    inodes = [inodes[o] for o in order]
    for m in members:
        if m["ino"] is not None:
            m["ino"] = remap[m["ino"]]
    iso = []
    if rng.chance(1, 3):
        cand = list(roots)
        if rng.chance(1, 3):
            cand.append(rng.choice(roots) + "/d0")
        cand = rng.shuffle(cand)
        iso = cand[:1 + rng.below(len(cand))]
    L = rng.below(5)
    prio = [rng.below(12) for _ in range(L)]
    pats = {"kn": [], "kp": [], "dn": [], "dp": []}
    if rng.chance(3, 10):
        pats["kn"] = [rng.choice(["k*", "*.a", "f1*", "?2*", "*", "k?[0-9]*", "??[0-9]*"])] + ([rng.choice(["x*", "*.b"])] if rng.chance(1, 3) else [])
    if rng.chance(2, 10):
        pats["kp"] = [rng.choice(["**/r0/**", "**/d0/*", "/**/r1/**", "**/d1/d0/**", "**/?[!0-9][0-9]*", "**/k?[0-9]*"])]
    if rng.chance(25, 100):
        pats["dn"] = [rng.choice(["*.b", "x*", "*", "f*", "k*", "??[0-9]*"])] + ([rng.choice(["*.a", "?1*"])] if rng.chance(1, 3) else [])
    if rng.chance(2, 10):
        pats["dp"] = [rng.choice(["**/r1/**", "**/d1/**", "/**/r0/**", "**/r2/*", "**/??[0-9]*", "**/x?[0-9]*"])]
    case = {"id": cid, "glen": glen, "op": rng.choice(OPS), "movedir": rng.choice(["mvdst", "r0/mv", "out/a/b"]),
            "n": None if rng.chance(3, 10) else rng.choice([0, 1, 1, 2, 2, 3, 4, 5]),
            "mlinks": rng.chance(3, 10), "nosize": rng.chance(2, 10),
            "mbefore": None if rng.chance(4, 10) else 500,
            # UTC offset the cut-off is expressed with (the header stores local time + offset): same instant
            "tz_off": rng.choice([0, 3600, 7200, -18000, 19800, 46800]),
            "prio": prio, "iso": iso, "inodes": inodes, "members": members}
    case.update(pats)
    if large:
        # the point of the large groups is the sort itself: many sub-groups, heavy ties, nothing that bails out
        case.update(mbefore=None, iso=[], mlinks=False, n=rng.choice([1, 2, 3]), kp=[], dp=[],
                    prio=[rng.choice([2, 3, 4, 5, 6, 7, 8, 9, 10, 11]) for _ in range(1 + rng.below(2))])
    return case


# ------------------------------------------------------------------------------------------------
# running both sides

def run_ddp(cases, scratch, dev2, timeout=1800):
    """-> {id: (model_line, impl_result)}; raises on harness precondition failures."""
    lines = [json.dumps(c) for c in cases]
    shards = min(core.NCPU, max(1, len(lines) // 8))
    size = (len(lines) + shards - 1) // shards
    parts = [lines[i:i + size] for i in range(0, len(lines), size)]

    def one(args):
        i, part = args
        d2 = "-"
        if dev2:
            d2 = os.path.join(dev2, "s%d" % i)
        return core.run_lines(DDP, part, ["api", os.path.join(scratch, "s%d" % i), d2], timeout=timeout)

    with ThreadPoolExecutor(max_workers=shards) as ex:
        outs = list(ex.map(one, list(enumerate(parts))))
    res = {}
    for o in outs:
        for l in o:
            f = l.split("\t")
            if len(f) < 3:
                raise RuntimeError("ddp: malformed output line: " + l[:300])
            if f[1] == "PRECOND":
                res[int(f[0])] = ("PRECOND", f[2])
            else:
                res[int(f[0])] = (f[1], f[2])
    return res


def parse_gline(g):
    """members of a model input line -> list of dicts (None metadata = unreadable)."""
    head, mems = g.split("|")
    out = []
    for j, m in enumerate(x for x in mems.split(";") if x.strip()):
        f = m.split()
        d = {"idx": j, "path": f[0].split("/"), "meta": len(f) > 2}
        if d["meta"]:
            cs, cn = f[8].split(",")
            d.update(dev=int(f[1]), ino=int(f[2]), len=int(f[3]), isfile=f[4] == "1",
                     mtime=None if f[5] == "-" else int(f[5]), atime=None if f[6] == "-" else int(f[6]),
                     btime=None if f[7] == "-" else int(f[7]), ctime=(int(cs), int(cn)),
                     kn=f[9], kp=f[10], dn=f[11], dp=f[12])
        out.append(d)
    return head.split(), out


def parse_result(r):
    """'P <pres> ## S <parts>' -> (pres dict, {dev: [cmd,...]})"""
    p, s = r.split(" ## ")
    p = p[2:].strip()
    s = s[2:].strip()
    pres = {"kind": p.split()[0] if not p.startswith("ok") else "ok"}
    if p.startswith("ok"):
        kv = dict(x.split("=") for x in p.split()[1:])
        pres["K"] = [] if kv["K"] == "-" else [int(x) if x.isdigit() else x for x in kv["K"].split(",")]
        pres["D"] = [] if kv["D"] == "-" else [int(x) if x.isdigit() else x for x in kv["D"].split(",")]
    parts = {}
    if s != "-":
        for part in s.split(" || "):
            dev, cs = part.split(":", 1)
            parts[dev] = cs.split(",")
    return pres, parts


# ------------------------------------------------------------------------------------------------
# the property, read independently of the model (declarative: sort once by the lexicographic key)

BASE_NS = 1_700_000_000 * 10 ** 9


def bits_any(b):
    return b != "-" and "1" in b


def oracle_expected(case, mems, base_dir):
    """What C08 (and the guards it presupposes) demand for the given members: returns
    ('err:modified'|'err:sortkey'|'ok', kept index set, dropped index set, info)."""
    surv = [m for m in mems if m["isfile"] and (case["nosize"] or m["len"] == case["glen"])]
    if case["mbefore"] is not None:
        cut = BASE_NS + case["mbefore"] * 10 ** 6
        if any(m["mtime"] is None or m["mtime"] > cut for m in surv):
            return "err:modified", set(), set(), {}
    roots = [[("2f")] + [c.encode().hex() for c in (base_dir + "/" + r).strip("/").split("/")] for r in case["iso"]]

    def root_of(m):
        for i, r in enumerate(roots):
            if m["path"][:len(r)] == r:
                return i
        return None

    groups, keyidx = [], {}
    for i in range(len(roots)):
        groups.append([m for m in surv if root_of(m) == i])
    for m in surv:
        if root_of(m) is not None:
            continue
        if case["mlinks"]:
            groups.append([m])
        else:
            key = (m["dev"], m["ino"])
            if key not in keyidx:
                keyidx[key] = len(groups)
                groups.append([])
            groups[keyidx[key]].append(m)
    groups = [g for g in groups if g]
    nopat = not case["dn"] and not case["dp"]

    def forced(g):
        keep = any(bits_any(m["kn"]) or bits_any(m["kp"]) for m in g)
        may = all(nopat or bits_any(m["dn"]) or bits_any(m["dp"]) for m in g)
        return keep or not may

    def neg(x):
        return tuple(-v for v in x) if isinstance(x, tuple) else -x

    needs_key = False

    def rank(i, g):
        nonlocal needs_key
        key = []
        for p in case["prio"]:
            if p == 0:
                key.append(-i)
                return tuple(key)
            if p == 1:
                key.append(i)
                return tuple(key)
            if p in (2, 3):
                vals = [m["btime"] for m in g]
                if any(v is None for v in vals):
                    needs_key = True
                    vals = [0]
                v = min(vals)
            elif p in (4, 5):
                v = max(m["mtime"] for m in g)
            elif p in (6, 7):
                v = max(m["atime"] for m in g)
            elif p in (8, 9):
                v = max(m["ctime"] for m in g)
            elif p == 10:
                v = max(len(m["path"]) for m in g)
            else:
                v = min(len(m["path"]) for m in g)
            key.append(neg(v) if p in (3, 5, 7, 9, 11) else v)
        key.append(i)
        return tuple(key)

    ranked = sorted(range(len(groups)), key=lambda i: rank(i, groups[i]))
    if needs_key and len(groups) >= 2:
        return "err:sortkey", set(), set(), {}
    nforced = sum(1 for g in groups if forced(g))
    n = max(1, case["n"] if case["n"] is not None else 1)
    quota = max(0, n - nforced)
    droppable = [i for i in ranked if not forced(groups[i])]
    kept_g = set(i for i in range(len(groups)) if forced(groups[i])) | set(droppable[:quota])
    kept = set(m["idx"] for i in kept_g for m in groups[i])
    dropped = set(m["idx"] for i in droppable[quota:] for m in groups[i])
    info = {"subgroups": len(groups), "forced": nforced, "quota": quota, "droppable": len(droppable),
            "max_sub": max([len(g) for g in groups] or [0]),
            "tied_first_key": len(set(rank(i, groups[i])[:1] for i in range(len(groups)))) < len(groups)}
    return "ok", kept, dropped, info


def oracle_check(case, mems, pres, parts, base_dir):
    """-> list of (kind, text) failures of the implementation's own output against the property."""
    bad = []
    if any(not m["meta"] for m in mems):
        if pres["kind"] != "nometa":
            bad.append(("metadata_error_not_skipped", "a member's metadata is unreadable but the group was processed"))
        if parts:
            bad.append(("metadata_error_not_skipped", "commands issued for a group with an unreadable member"))
        return bad, {}
    exp, kept, dropped, info = oracle_expected(case, mems, base_dir)
    if exp != "ok":
        if pres["kind"] != exp:
            bad.append(("guard_mismatch", "expected %s, partition returned %s" % (exp, pres["kind"])))
    else:
        if pres["kind"] != "ok":
            bad.append(("guard_mismatch", "expected a partition, got %s" % pres["kind"]))
        else:
            if set(pres["D"]) != dropped or set(pres["K"]) != kept:
                bad.append(("rank_mismatch", "dropped %s kept %s, the property demands dropped %s kept %s" %
                            (sorted(pres["D"]), sorted(pres["K"]), sorted(dropped), sorted(kept))))
    # the script: victims = what the property says may be dropped (per device class for hard/ref links)
    split = case["op"] in ("hl", "rl")
    classes = {}
    if split:
        for m in mems:
            classes.setdefault(str(m["dev"]), []).append(m)
    else:
        classes["*"] = mems
    for dev, ms in classes.items():
        e, k, d, _ = oracle_expected(case, ms, base_dir)
        cmds = parts.get(dev, [])
        victims, targets = [], set()
        for c in cmds:
            body = c.split(":", 1)[1]
            if c.startswith("mv:"):
                victims.append(int(body.split(">")[0]))
            elif c.startswith("rm:"):
                victims.append(int(body))
            else:
                t, l = body.split(">")
                victims.append(int(l))
                targets.add(int(t))
        surv = set(m["idx"] for m in ms if m["isfile"] and (case["nosize"] or m["len"] == case["glen"]))
        for t in targets:
            if t in victims or t not in surv or len(targets) > 1:
                bad.append(("link_target_not_kept", "device class %s: link target %s is replaced itself, is not a "
                            "checked member of the class, or is not unique" % (dev, t)))
        want = d if e == "ok" else set()
        if set(victims) != want or len(victims) != len(set(victims)):
            bad.append(("rank_mismatch" if e == "ok" else "guard_mismatch",
                        "device class %s: commands act on %s, the property demands %s" % (dev, sorted(victims), sorted(want))))
    for dev in parts:
        if dev not in classes:
            bad.append(("unknown_device_class", dev))
    return bad, info


# ------------------------------------------------------------------------------------------------

def examine(ctx, cases, results, model_out, scratch, count=True):
    """compare implementation / model / oracle for every case; returns list of failure records."""
    fails = []
    for case in cases:
        cid = case["id"]
        g, impl = results[cid]
        if g == "PRECOND":
            raise RuntimeError("harness precondition failed for case %d: %s" % (cid, impl))
        model = model_out[cid]
        _, mems = parse_gline(g)
        pres, parts = parse_result(impl)
        base_dir = os.path.join(scratch_of(case, scratch), "c%d" % cid)
        bad, info = oracle_check(case, mems, pres, parts, base_dir)
        k9 = tb_not_last(case["prio"])
        if count:
            ctx.count()
            nontriv = pres["kind"] == "ok" and len(pres["D"]) > 0
            ctx.distinct(json.dumps({k: v for k, v in case.items() if k != "id"}, sort_keys=True), nontriv)
            ctx.bump("members", len(case["members"]) if len(case["members"]) <= 12 else "24-40")
            ctx.bump("op", case["op"])
            ctx.bump("names_with_raw_0xFF_backslash_or_control_bytes", min(3, sum(1 for m in case["members"] if "%" in m["path"])))
            ctx.bump("n", case["n"])
            ctx.bump("priority_list_len", len(case["prio"]))
            for p in case["prio"]:
                ctx.bump("priority", PRIO_NAMES[p])
            ctx.bump("top_bottom_followed_by_another_priority", k9)
            ctx.bump("isolated_roots", len(case["iso"]))
            ctx.bump("match_links", case["mlinks"])
            ctx.bump("no_check_size", case["nosize"])
            ctx.bump("modified_before", case["mbefore"] is not None)
            if case["mbefore"] is not None:
                ctx.bump("cutoff_utc_offset_s", case.get("tz_off", 3600))
            ctx.bump("patterns", "".join(x for x in ("kn", "kp", "dn", "dp") if case[x]) or "none")
            ctx.bump("partition_result", pres["kind"])
            ctx.bump("member_kinds", ",".join(sorted(set(
                m["kind"] if m["kind"] != "link" else case["inodes"][m["ino"]]["kind"] for m in case["members"]))))
            ctx.bump("hard_link_sets", sum(1 for i in range(len(case["inodes"]))
                                           if sum(1 for m in case["members"] if m["ino"] == i) > 1))
            ctx.bump("devices_in_group", len(set(m["dev"] for m in mems if m["meta"])))
            if info:
                ctx.bump("subgroups", info["subgroups"])
                ctx.bump("forced_kept_subgroups", info["forced"])
                ctx.bump("largest_subgroup", info["max_sub"])
                ctx.bump("tie_on_first_key", info["tied_first_key"])
                ctx.bump("dropped_files", len(pres.get("D", [])))
            ctx.sample({"case": {k: case[k] for k in ("op", "n", "prio", "iso", "mlinks", "nosize", "mbefore", "kn", "kp", "dn", "dp")},
                        "members": len(case["members"]), "impl": impl, "model": model})
        rec = {"case": case, "model_input": g, "impl": impl, "model": model, "oracle": bad,
               "replay_cmd": "./check C08 --replay <this file>"}
        if model != impl:
            fails.append(("corr", rec))
        for kind, text in bad:
            fails.append((kind, rec, text))
    return fails


def scratch_of(case, scratch):
    return case.get("_scratch", scratch)


def run_cases(ctx, cases, model_bin, scratch, dev2):
    results = run_ddp(cases, scratch, dev2)
    # shard directories: record where each case lived (run_ddp shards deterministically)
    shards = min(core.NCPU, max(1, len(cases) // 8))
    size = (len(cases) + shards - 1) // shards
    for i, c in enumerate(cases):
        c["_scratch"] = os.path.join(scratch, "s%d" % (i // size))
    ids = [c["id"] for c in cases]
    for i in ids:
        if results[i][0] == "PRECOND":
            raise RuntimeError("harness precondition failed for case %d: %s" % (i, results[i][1]))
    outs = core.run_lines_parallel(model_bin, [results[i][0] for i in ids])
    return results, dict(zip(ids, outs))


def shrink(ctx, case, kind, model_bin, scratch, dev2):
    """greedy: drop priorities / patterns / members while the same kind of failure persists."""
    def fails(c):
        c = dict(c)
        c["id"] = 0
        res, mo = run_cases(ctx, [c], model_bin, scratch, dev2)
        fl = examine(ctx, [c], res, mo, scratch, count=False)
        return any(f[0] == kind for f in fl)

    cur = json.loads(json.dumps({k: v for k, v in case.items() if k != "_scratch"}))
    budget = 60
    changed = True
    while changed and budget > 0:
        changed = False
        for i in range(len(cur["prio"])):
            cand = dict(cur, prio=cur["prio"][:i] + cur["prio"][i + 1:])
            if kind == "priority_top_not_last" and not tb_not_last(cand["prio"]):
                continue
            budget -= 1
            if fails(cand):
                cur, changed = cand, True
                break
        if changed:
            continue
        for key in ("kn", "kp", "dn", "dp", "iso"):
            if cur[key]:
                cand = dict(cur)
                cand[key] = []
                budget -= 1
                if fails(cand):
                    cur, changed = cand, True
                    break
        if changed:
            continue
        for j in range(len(cur["members"]) - 1, -1, -1):
            ms = cur["members"]
            if any(m.get("target") == j for m in ms):
                continue
            cand = dict(cur, members=[dict(m, target=(m["target"] - 1 if m.get("target", -1) > j else m.get("target")))
                                      if "target" in m else m for i, m in enumerate(ms) if i != j])
            if len(cand["members"]) < 2:
                continue
            budget -= 1
            if budget <= 0:
                break
            if fails(cand):
                cur, changed = cand, True
                break
    return cur


def neighbourhood(rng, case):
    """variants of a disagreeing case: every n, every single priority, toggled options, every op."""
    out = []
    for n in [None, 0, 1, 2, 3, 4, 5]:
        out.append(dict(case, n=n))
    for p in range(12):
        out.append(dict(case, prio=[p]))
        out.append(dict(case, prio=case["prio"] + [p]))
    for i in range(len(case["prio"])):
        out.append(dict(case, prio=case["prio"][:i]))
    out.append(dict(case, mlinks=not case["mlinks"]))
    out.append(dict(case, nosize=not case["nosize"]))
    out.append(dict(case, mbefore=None if case["mbefore"] is not None else 500))
    out.append(dict(case, iso=[]))
    for k in ("kn", "kp", "dn", "dp"):
        out.append(dict(case, **{k: []}))
    for op in OPS:
        out.append(dict(case, op=op))
    res = []
    for i, c in enumerate(out):
        c = json.loads(json.dumps({k: v for k, v in c.items() if k != "_scratch"}))
        c["id"] = 900000 + i
        res.append(c)
    return res


def report(ctx, fails, model_bin, scratch, dev2):
    """turn failure records into KNOWN-FINDING / VIOLATION lines following DESIGN 2.3."""
    oracle_fails = [f for f in fails if f[0] != "corr"]
    corr_fails = [f for f in fails if f[0] == "corr"]
    corr_ids = set(f[1]["case"]["id"] for f in corr_fails)
    seen_kinds = set()
    for f in oracle_fails:
        kind, rec, text = f
        case = rec["case"]
        if kind in seen_kinds:
            ctx.violation({"kind": kind}, text, rec, found_input=True)
            continue
        seen_kinds.add(kind)
        try:
            small = shrink(ctx, case, kind, model_bin, scratch, dev2)
            rec = dict(rec, minimised_case=small)
        except Exception as e:  # shrinking is best effort
            core.log("shrink failed: %r" % (e,))
        ctx.violation({"kind": kind}, "case %d: %s" % (case["id"], text), rec, found_input=True)
    if corr_fails:
        have_input = any(v[3] for v in ctx.violations)
        _, rec = corr_fails[0]
        rec = dict(rec, correspondence="DedupeModel.partition / dedupe_group vs dedupe.rs partition / dedupe",
                   disagreeing_cases=len(corr_fails))
        if not have_input:
            # search the neighbourhood of the first disagreeing cases with the oracle
            found = None
            for _, r in corr_fails[:3]:
                nb = neighbourhood(ctx.rng, r["case"])
                res, mo = run_cases(ctx, nb, model_bin, scratch, dev2)
                fl = examine(ctx, nb, res, mo, scratch, count=False)
                for x in fl:
                    if x[0] != "corr":
                        found = x
                        break
                if found:
                    break
            if found:
                ctx.violation({"kind": found[0]}, "found near a model/implementation disagreement: " + found[2], found[1], found_input=True)
            else:
                ctx.violation({"kind": "model_mismatch"},
                              "model and implementation disagree (impl: %s | model: %s); the oracle is silent on the case and its neighbourhood"
                              % (rec["impl"][:200], rec["model"][:200]), rec, found_input=False)
        else:
            core.log("model/implementation disagreement on %d cases (first: impl %s | model %s)" %
                     (len(corr_fails), rec["impl"][:200], rec["model"][:200]))


# ------------------------------------------------------------------------------------------------
# CLI layer: header inheritance

def sh(cmd, cwd, stdin=None, env=None):
    p = subprocess.run(cmd, cwd=cwd, input=stdin, stdout=subprocess.PIPE, stderr=subprocess.PIPE, text=True, env=env)
    return p


def comps_hex(p):
    return "/".join(["2f"] + [c.encode().hex() for c in p.strip("/").split("/")])


def glob_to_re(g):
    """reference reading of the documented glob syntax: ? one char, * anything but '/', ** anything, [a-z] / [!a-z]
    classes, {a,b} alternatives (nesting allowed), backslash escapes; the whole subject must match"""
    import re as _re
    out, i, depth = [], 0, 0
    while i < len(g):
        c = g[i]
        if c == "\\" and i + 1 < len(g):
            out.append(_re.escape(g[i + 1]))
            i += 2
            continue
        if c == "*":
            if g[i:i + 2] == "**":
                out.append("(?s:.*)")
                i += 2
            else:
                out.append("[^/]*")
                i += 1
            continue
        if c == "?":
            out.append("(?s:.)")
        elif c == "[":
            j = g.index("]", i + 2 if g[i + 1:i + 2] in ("!", "]") else i + 1)
            body = g[i + 1:j]
            neg = body.startswith("!")
            if neg:
                body = body[1:]
            out.append("[" + ("^" if neg else "") + body.replace("\\", "\\\\").replace("[", "\\[") + "]")
            i = j
        elif c == "{":
            out.append("(?:")
            depth += 1
        elif c == "}" and depth > 0:
            out.append(")")
            depth -= 1
        elif c == "," and depth > 0:
            out.append("|")
        else:
            out.append(_re.escape(c))
        i += 1
    return _re.compile("^(?:" + "".join(out) + ")$")


def glob_match(g, text):
    return glob_to_re(g).match(text) is not None


CLI_SELECT = {
    # patterns with commas: brace alternatives, a comma inside [...], a literal comma of a file name
    "--keep-name": ["*.{a,zz}", "f0_[0,1]*", "f?_0,v.{a,b}", "{f0,f1}_*.b", "*,v.*"],
    "--keep-path": ["**/{r0,golden}/**", "**/{d,nope}/*", "**/r[0,1]/**", "**/{sub,other}/**"],
    "--name": ["*.{b,a}", "f{0,2}_*", "f[1,2]_*", "*_{0,1,2},v.*", "*.b"],
    "--path": ["**/{r1,r2,sub}/**", "**/d/*.{a,b}", "**/{r0,r3}/**"],
}


def gen_cli(rng):
    """a tree of 1-3 classes of equal files over 2-3 roots (hard links included) + the `group` options"""
    # input roots at DIFFERENT depths, in any order (the order of the arguments is the order of the isolated
    # roots, hence of the sub-groups); sometimes one root nested in another (first matching root wins)
    layout = rng.below(4)
    if layout == 0:
        roots = ["r0", "r1"] + (["r2"] if rng.chance(1, 3) else [])
    else:
        pool = ["r0", "sub/r1", "sub/deeper/r2", "other/x/y/r3"]
        roots = rng.shuffle(pool)[:2 + rng.below(2)]
        if layout == 3:
            roots = rng.shuffle(roots + [roots[0] + "/d"])
    files = []
    for c in range(1 + rng.below(3)):
        content = ("class%d-" % c) * (2 + c)
        firsts = []
        for k in range(2 + rng.below(4)):
            r = rng.choice(roots)
            rel = os.path.join(r, rng.choice(["", "d"]), "f%d_%d%s%s" % (c, k, ",v" if rng.chance(1, 6) else "", rng.choice([".a", ".b"])))
            f = {"rel": rel, "content": content, "link_of": None, "mtime": 1_600_000_000 + rng.below(4) * 100}
            if firsts and rng.chance(1, 4):
                f["link_of"] = rng.choice(firsts)
            else:
                firsts.append(len(files))
            files.append(f)
    isolate = rng.chance(1, 2)
    mode = rng.below(5)             # 0: default rf-over, 1/2: --rf-over k, 3: --unique, 4: --rf-under
    prio = [rng.choice([4, 5, 10, 11, 1, 0])] if rng.chance(1, 2) else []
    if prio and rng.chance(1, 2):
        prio.append(rng.choice([4, 5, 10, 11]))      # also top/bottom FOLLOWED by another priority (K9 repaired by 7054be1)
    select = []
    if rng.chance(1, 2):
        for _ in range(1 + rng.below(2)):
            o = rng.choice(sorted(CLI_SELECT))
            select += [o, rng.choice(CLI_SELECT[o])]
    return {"roots": roots, "files": files, "isolate": isolate, "hlinks": rng.chance(1, 2),
            # --transform in its I/O modes, always changing the length (the recorded length is 7)
            "transform": rng.choice([None, None, None, "stream", "in", "in_place"]), "select": select,
            "mode": mode, "prio": prio,
            "cli_n": rng.choice([None, None, 1, 2, 3]),       # -n on the dedupe command line (both runs)
            # how the input roots are named: relative to --base-dir, itself relative to the working directory of `group`
            "basedir": rng.choice(["default", "dot", "rel", "rel_nested", "dotdot", "abs"]),
            # one input path of `group` is given THROUGH A SYMBOLIC LINK to its directory (the header records it as typed;
            # the dedupe command must use the canonical form the reported paths have)
            "root_via_link": rng.below(3) if rng.chance(1, 3) else None}


def run_cli(ctx, spec, model_bin, fclones, tree, count=True):
    """-> None or (kind, record, text).  Layout: <clidir>/w/tree/<roots>; `group` runs from a working directory
    chosen by spec["basedir"] with the matching --base-dir; the dedupe commands run from <clidir>/other."""
    clidir = tree
    shutil.rmtree(clidir, ignore_errors=True)
    tree = os.path.join(clidir, "w", "tree")
    other = os.path.join(clidir, "other")
    os.makedirs(other)
    bmode = spec.get("basedir", "default")
    gcwd, bopts = {"default": (tree, []), "dot": (tree, ["--base-dir", "."]),
                   "rel": (os.path.join(clidir, "w"), ["--base-dir", "tree"]),
                   "rel_nested": (clidir, ["--base-dir", "w/tree"]),
                   "dotdot": (os.path.join(tree, spec["roots"][0]),
                              ["--base-dir", os.path.relpath(tree, os.path.join(tree, spec["roots"][0]))]),
                   "abs": (other, ["--base-dir", tree])}[bmode]
    roots = spec["roots"]
    for r in roots:
        os.makedirs(os.path.join(tree, r, "d"), exist_ok=True)
    for f in spec["files"]:
        p = os.path.join(tree, f["rel"])
        if f["link_of"] is not None:
            os.link(os.path.join(tree, spec["files"][f["link_of"]]["rel"]), p)
        else:
            with open(p, "w") as fh:
                fh.write(f["content"])
            os.utime(p, (f["mtime"] + 5, f["mtime"]))
    with open(os.path.join(tree, roots[0], "uniq"), "w") as fh:
        fh.write("only one copy")
    groots = list(roots)
    if spec.get("root_via_link") is not None:
        i = spec["root_via_link"] % len(roots)
        os.symlink(os.path.join(tree, roots[i]), os.path.join(tree, "lnk_root"))
        groots[i] = "lnk_root"
    isolate, hlinks, transform, mode, prio = spec["isolate"], spec["hlinks"], spec["transform"], spec["mode"], spec["prio"]
    gopts = []
    if isolate:
        gopts.append("--isolate")
    if hlinks:
        gopts.append("-H")
    if transform is True or transform == "stream":
        gopts += ["--transform", "head -c 7"]
    elif transform == "in":
        gopts += ["--transform", "head -c 7 $IN"]
    elif transform == "in_place":
        gopts += ["--transform", "truncate -s 7 $IN", "--in-place"]
    transform = bool(transform)
    rfo = None
    if mode in (1, 2):
        rfo = mode if not isolate else 1
        gopts += ["--rf-over", str(rfo)]
    elif mode == 3:
        gopts.append("--unique")
    elif mode == 4:
        gopts += ["--rf-under", "2" if isolate else "3"]
    popts = []
    for p in prio:
        popts += ["--priority", PRIO_NAMES[p]]
    cli_n = spec.get("cli_n")
    if cli_n is not None:
        popts += ["-n", str(cli_n)]
    select = spec.get("select") or []
    popts += select                       # the same selection options on both dedupe command lines
    selp = {"--keep-name": [], "--keep-path": [], "--name": [], "--path": []}
    for i in range(0, len(select), 2):
        selp[select[i]].append(select[i + 1])

    def bitstr(pats, subject):
        return "".join("1" if glob_match(g, subject) else "0" for g in pats) or "-"
    env = dict(os.environ, RAYON_NUM_THREADS="2")
    g = sh([fclones, "group"] + bopts + gopts + groots, gcwd, env=env)
    if g.returncode != 0:
        raise RuntimeError("fclones group failed: " + g.stderr[-500:])
    report_h = g.stdout
    lines = report_h.split("\n")
    ci = [i for i, l in enumerate(lines) if l.startswith("# Command:")][0]
    plain = list(lines)
    plain[ci] = "# Command: fclones group " + " ".join(groots)      # a `group` command without the options
    report_0 = "\n".join(plain)
    a = sh([fclones, "remove", "--dry-run"] + popts, other, stdin=report_h, env=env)
    n_inh = 0 if mode in (3, 4) else (rfo if rfo is not None else 1)
    xopts = ["-n", str(max(1, n_inh))] if cli_n is None else []
    if isolate:
        for r in roots:
            xopts += ["--isolate", os.path.join(tree, r)]
    if hlinks:
        xopts.append("-H")
    if transform:
        xopts.append("--no-check-size")
    ts_line = [l for l in lines if l.startswith("# Timestamp:")][0][len("# Timestamp: "):]
    b = sh([fclones, "remove", "--dry-run"] + popts + xopts, other, stdin=report_0, env=env)

    def rms(p):
        if p.returncode != 0:
            return "exit %d: %s" % (p.returncode, p.stderr[-300:])
        import shlex
        return sorted(shlex.split(l)[1] for l in p.stdout.split("\n") if l.startswith("rm "))
    ra, rb = rms(a), rms(b)
    # model: partition (merge h c) and partition (explicit h c) group by group
    groups, cur = [], None
    for l in lines:
        if l.startswith("#") or not l.strip():
            continue
        if not l.startswith("    "):
            glen = int(l.split(",")[1].strip().split(" ")[0])
            unit = l.split(",")[1].strip().split(" ")[1]
            cur = {"glen": glen, "files": []}
            assert unit == "B"
            groups.append(cur)
        else:
            cur["files"].append(l[4:])
    import datetime
    ts = datetime.datetime.strptime(ts_line, "%Y-%m-%d %H:%M:%S.%f %z")
    ts_ns = int(ts.timestamp() * 1000 + 0.5) * 10 ** 6
    mlines = []
    for gr in groups:
        mem = []
        for f in gr["files"]:
            st = os.stat(f)
            mem.append(" %s %d %d %d %d %d %d - %d,%d %s %s %s %s 1" % (
                comps_hex(f), st.st_dev, st.st_ino, st.st_size, 1, st.st_mtime_ns, st.st_atime_ns,
                st.st_ctime_ns // 10 ** 9, st.st_ctime_ns % 10 ** 9,
                bitstr(selp["--keep-name"], os.path.basename(f)), bitstr(selp["--keep-path"], f),
                bitstr(selp["--name"], os.path.basename(f)), bitstr(selp["--path"], f)))
        hf = "%d %d %s %d %d %d %s %d" % (transform, hlinks, rfo if rfo is not None else "-", mode == 4, mode == 3,
                                         isolate, ",".join(comps_hex(os.path.join(tree, r)) for r in roots), ts_ns)
        cfg = "rm %s 0 0 - %s %d - %d,%d,%d,%d" % (cli_n if cli_n is not None else "-", ",".join(str(p) for p in prio) or "-", gr["glen"],
                                                 len(selp["--keep-name"]), len(selp["--keep-path"]), len(selp["--name"]), len(selp["--path"]))
        mlines.append("M " + hf + " # " + cfg + " |" + " ;".join(mem))
    mout = core.run_lines(model_bin, mlines) if mlines else []
    m_merge, m_expl = [], []
    for gr, o in zip(groups, mout):
        if o.startswith("EXN"):
            raise RuntimeError("model: " + o)
        pm, pe = o.split(" ## ")
        for tgt, p in ((m_merge, pm), (m_expl, pe)):
            if p.startswith("ok"):
                d = p.split("D=")[1]
                if d != "-":
                    tgt.extend(gr["files"][int(i)] for i in d.split(","))
    m_merge.sort()
    m_expl.sort()
    if cli_n is not None:
        m_expl = m_merge        # `explicit` of the model takes n from the header; here -n is on both command lines
    if count:
        ctx.count()
        ctx.distinct(("cli", json.dumps(spec, sort_keys=True)), isinstance(ra, list) and len(ra) > 0)
        ctx.bump("cli_group_options", " ".join(gopts) or "(none)")
        ctx.bump("cli_base_dir", bmode)
        ctx.bump("cli_group_root_through_a_symlink", spec.get("root_via_link") is not None)
        ctx.bump("cli_transform_mode", spec.get("transform") if spec.get("transform") is not True else "stream")
        for i in range(0, len(select), 2):
            ctx.bump("cli_selection_pattern", select[i] + " " + select[i + 1])
        ctx.bump("cli_files_with_comma_in_name", sum(1 for f in spec["files"] if "," in f["rel"]))
        depths = [r.count("/") for r in roots]
        ctx.bump("cli_root_depths", "nested" if any(a != b and b.startswith(a + "/") for a in roots for b in roots)
                 else ("equal" if len(set(depths)) == 1 else ("deeper_after_shallower" if any(
                     depths[i] < depths[j] for i in range(len(roots)) for j in range(i + 1, len(roots))) else "deeper_first")))
        ctx.bump("cli_n_on_command_line", cli_n)
        ctx.bump("cli_base_dir x isolate", "%s%s" % (bmode, "+isolate" if isolate else ""))
        ctx.bump("cli_removed_files", len(ra) if isinstance(ra, list) else -1)
    rel = lambda l: [x.replace(tree + "/", "") for x in l] if isinstance(l, list) else l
    rec = {"cli_spec": spec, "group_cmd": ["fclones", "group"] + bopts + gopts + roots, "group_cwd": gcwd.replace(clidir, "<clidir>"),
           "dedupe_cwd": "<clidir>/other", "priority": [PRIO_NAMES[p] for p in prio],
           "inherit_removed": rel(ra), "explicit_opts": [x.replace(tree + "/", "<tree>/") for x in xopts], "explicit_removed": rel(rb),
           "model_merge_removed": rel(m_merge), "model_explicit_removed": rel(m_expl), "report": report_h[:3000].replace(tree, "<tree>")}
    shutil.rmtree(clidir, ignore_errors=True)
    # the property itself, read with the reference glob: keep patterns protect, --name/--path restrict
    if isinstance(ra, list):
        for f in ra:
            if any(glob_match(g, os.path.basename(f)) for g in selp["--keep-name"]) or any(glob_match(g, f) for g in selp["--keep-path"]):
                return ("kept_file_removed", rec, "%s matches a --keep-name/--keep-path pattern of %s and is removed" % (f.replace(tree + "/", ""), select))
            if (selp["--name"] or selp["--path"]) and not (any(glob_match(g, os.path.basename(f)) for g in selp["--name"])
                                                          or any(glob_match(g, f) for g in selp["--path"])):
                return ("non_matching_file_removed", rec, "%s matches none of the --name/--path patterns of %s and is removed" % (f.replace(tree + "/", ""), select))
    if ra != rb:
        return ("inherit_mismatch", rec, "`remove` with the options only in the report header drops %s, "
                "with the same options given explicitly %s" % (rel(ra), rel(rb)))
    if ra != m_merge or rb != m_expl:
        return ("cli_model_mismatch", rec, "binary drops %s, model of run_dedupe's merge %s (explicit: %s)" % (rel(ra), rel(m_merge), rel(m_expl)))
    return None


def cli_layer(ctx, model_bin, fclones, nruns):
    fails = []
    for run in range(nruns):
        spec = gen_cli(ctx.rng)
        f = run_cli(ctx, spec, model_bin, fclones, os.path.join(ctx.scratch, "cli"))
        if f:
            fails.append(f)
    return fails


# ------------------------------------------------------------------------------------------------

def setup_dev2(ctx):
    """a directory on a second device (tmpfs) for cross-device groups, or None."""
    try:
        if os.path.isdir(DEV2_ROOT) and os.stat(DEV2_ROOT).st_dev != os.stat(core.CACHE).st_dev:
            d = os.path.join(DEV2_ROOT, "fclones_verif_%s_%d" % (ctx.prop, os.getpid()))
            shutil.rmtree(d, ignore_errors=True)
            os.makedirs(d)
            return d
    except OSError:
        pass
    return None


def run(ctx):
    ctx.rule = ("API level: generated duplicate groups of 2-12 (every 40th: 24-40) report paths built as real files (hard-link sets, 1-3 roots, nested "
                "isolated roots, symlinks to members, directories, fifos, missing and dangling members, changed lengths, a second "
                "device, tied/distinct mtime/atime set with utimensat, btime/ctime from creation order read back with statx) x "
                "DedupeConfig (n in {none,0..5}, priority lists of length 0-4 over all 12 priorities, keep/drop globs on names and "
                "paths, isolated roots, match_links, no_check_size, modified_before) x 5 ops; one case = one group+config; "
                "non-trivial = the implementation drops at least one file; distinct = distinct case description. "
                "CLI level: trees -> fclones group [--isolate] [-H] [--transform] [--rf-over k|--unique|--rf-under] -> "
                "fclones remove --dry-run with the options inherited from the header vs. given explicitly; `group` is run with --base-dir "
                "absent / . / relative / nested relative / .. / absolute from the matching working directory and relative roots, the "
                "dedupe commands from another working directory")
    ctx.assumptions = ["stat() results of the members do not change between the harness's own statx calls and the calls made by fclones "
                       "(nothing else touches the scratch tree)",
                       "keep/may_drop are given to the model as per-pattern match bits computed by Pattern::matches (glob semantics "
                       "itself is engine P's subject); their combination rule is part of the model"]
    ctx.trusted.append("C08: harness/src/bin/ddp.rs (file construction, statx read-back, rendering of FsCommand), the Python oracle in "
                       "vlib/props/c08.py (independent reading of the property), the text-report header rewrite of the CLI layer")
    ctx.use_coq()
    model_bin = core.build_model("D")
    core.build_harness(["ddp"])
    dev2 = setup_dev2(ctx)
    ctx.extra["second_device_dir"] = dev2 or "(none available: cross-device dimension not exercised)"
    scratch = os.path.join(ctx.scratch, "api")
    os.makedirs(scratch, exist_ok=True)
    try:
        if ctx.replay:
            rp = json.load(open(ctx.replay))
            if "cli_spec" in rp:
                f = run_cli(ctx, rp["cli_spec"], model_bin, core.build_fclones(), os.path.join(ctx.scratch, "cli"))
                if f:
                    ctx.violation({"kind": f[0]}, f[2], f[1], found_input=(f[0] != "cli_model_mismatch"))
                return
            case = rp.get("minimised_case") or rp["case"]
            case = {k: v for k, v in case.items() if k != "_scratch"}
            res, mo = run_cases(ctx, [case], model_bin, scratch, dev2)
            fails = examine(ctx, [case], res, mo, scratch)
            report(ctx, fails, model_bin, scratch, dev2)
            return
        ncases = ctx.pick(2000, 20000)
        cases = []
        shards = min(core.NCPU, max(1, ncases // 8))
        size = (ncases + shards - 1) // shards
        for i in range(ncases):
            sd = os.path.join(scratch, "s%d" % (i // size))
            cases.append(gen_case(ctx.rng, i, dev2 is not None, sd, small=(i % 5 == 0), large=(i % 40 == 7)))
        # regression case of the repaired K9 (DESIGN App. C): a, b, c created in the order c, b, a; --priority top --priority newest
        cases.append({"id": ncases, "glen": 4, "op": "rm", "movedir": "mvdst", "n": None, "mlinks": False, "nosize": False,
                      "mbefore": None, "prio": [0, 2], "iso": [], "kn": [], "kp": [], "dn": [], "dp": [],
                      "inodes": [dict(kind="file", len=4, mtime=-1000, atime=-500, gap_ms=20, gap2_ms=0) for _ in range(3)],
                      "members": [{"path": "r0/a", "ino": 2, "kind": "link"}, {"path": "r0/b", "ino": 1, "kind": "link"},
                                  {"path": "r0/c", "ino": 0, "kind": "link"}]})
        res, mo = run_cases(ctx, cases, model_bin, scratch, dev2)
        fails = examine(ctx, cases, res, mo, scratch)
        if not ctx.quick:
            # bounded exhaustive part: all priority lists of length <= 2 over the 12 priorities on small groups
            ex = []
            cid = 100000
            base_cases = [gen_case(ctx.rng, 0, False, scratch, small=True) for _ in range(6)]
            for bc in base_cases:
                for p1 in range(12):
                    for p2 in [None] + list(range(12)):
                        c = json.loads(json.dumps(bc))
                        c["id"] = cid
                        c["prio"] = [p1] if p2 is None else [p1, p2]
                        c["kp"], c["dp"] = [], []
                        cid += 1
                        ex.append(c)
            res2, mo2 = run_cases(ctx, ex, model_bin, scratch, dev2)
            fails += examine(ctx, ex, res2, mo2, scratch)
            ctx.extra["exhaustive_priority_lists_len_le_2"] = len(ex)
        fclones = core.build_fclones()
        cli_fails = cli_layer(ctx, model_bin, fclones, ctx.pick(160, 1500))
        report(ctx, fails, model_bin, scratch, dev2)
        for kind, rec, text in cli_fails[:5]:
            ctx.violation({"kind": kind}, text, rec, found_input=(kind != "cli_model_mismatch"))
        ctx.extra["exhaustive"] = False
    finally:
        if dev2:
            shutil.rmtree(dev2, ignore_errors=True)
