"""Shared machinery of engine X (C02, C11): whole dedupe runs of the real `fclones` binary on generated trees.

  scenario      tree (treegen: hostile names, hard links, symlinks) + `fclones group` options (recorded in the report
                header and inherited by the dedupe command) + report format + dedupe operation + its options
  observation   full inventory (path, type, inode, nlink, link target, sha256, mtime, mode) before / after
  model side    the same report + inventory + option semantics are handed to the extracted model
                (coq/EffectsModel.v: stat_fs -> DedupeModel.dedupe_group -> fcmd_of -> AtomicModel.run) through
                coq/driver/drv_X.ml; compared: the command list, the final tree up to inode renumbering / temp
                names, the summary line
  oracle        independent Python reading of the four clauses of C02 (x_common.c02_oracle)

Everything random derives from the SplitMix64 handed in; a scenario is identified by (name, rng seed) so that a
replay file only needs those two values.
"""
import ctypes
import hashlib
import os
import re
import shutil
import stat as statmod
import subprocess

from .. import core, treegen
from .a_common import pct

T0 = 1_500_000_000
PRIORITIES = ["top", "bottom", "newest", "oldest", "most-recently-modified", "least-recently-modified",
              "most-recently-accessed", "least-recently-accessed", "most-recent-status-change", "least-recent-status-change",
              "most-nested", "least-nested"]
OPS = ["remove", "link", "softlink", "dedupe", "move"]
OPCODE = {"remove": "rm", "link": "hl", "softlink": "sl", "dedupe": "rl", "move": "mv"}
TEMP_RE = re.compile(rb"^(.*)\.[A-Za-z0-9]{24}$")
SIZES = [1, 2, 3, 50, 100, 300]
CANON_SFX = "T" * 24       # canonical form of the 24 random alphanumerics in a printed script

# ------------------------------------------------------------------------------------------------ statx (birth time)

_libc = ctypes.CDLL(None, use_errno=True)


def statx(path, follow=True):
    """dict(dev, ino, size, mode, nlink, atime, mtime, ctime, btime) in ns (ctime as (s, ns)); None if it fails"""
    buf = ctypes.create_string_buffer(256)
    p = path if isinstance(path, bytes) else path.encode()
    flags = 0 if follow else 0x100          # AT_SYMLINK_NOFOLLOW
    r = _libc.syscall(332, -100, ctypes.c_char_p(p), flags, 0xfff, buf)
    if r != 0:
        return None
    b = buf.raw

    def u(off, n):
        return int.from_bytes(b[off:off + n], "little")

    def ts(off):
        return int.from_bytes(b[off:off + 8], "little", signed=True), u(off + 8, 4)
    a, bt, ct, mt = ts(64), ts(80), ts(96), ts(112)
    mask = u(0, 4)
    return {"dev": os.makedev(u(136, 4), u(140, 4)),
            "ino": u(32, 8), "size": u(40, 8), "mode": u(28, 2), "nlink": u(16, 4),
            "atime": a[0] * 10**9 + a[1], "mtime": mt[0] * 10**9 + mt[1], "ctime": ct,
            "btime": (bt[0] * 10**9 + bt[1]) if mask & 0x800 else None}


# ------------------------------------------------------------------------------------------------ scenarios

class Scn:
    """One whole-program case.  Fields are filled by gen_random / the directed constructors."""

    def __init__(self, name, seed, base):
        self.name = name
        self.seed = seed
        self.base = base if isinstance(base, bytes) else base.encode()
        self.treedir = os.path.join(self.base, b"tree")
        self.roots = []
        self.group_opts = []
        self.fmt = "default"
        self.op = "remove"
        self.op_opts = []          # CLI options of the dedupe command (strings / bytes)
        self.move_dir = None
        self.fake_mount = False
        self.sem = {}              # semantic reading of op_opts for the oracle / the model (see pick_opts)
        self.threads = None
        self.no_lock = False
        self.notes = []

    # -- tree builders for the directed cases
    def mk(self, rel, data, mtime=None):
        p = os.path.join(self.treedir, rel)
        os.makedirs(os.path.dirname(p), exist_ok=True)
        with open(p, "wb") as f:
            f.write(data)
        return p

    def ln(self, rel_src, rel):
        p = os.path.join(self.treedir, rel)
        os.makedirs(os.path.dirname(p), exist_ok=True)
        os.link(os.path.join(self.treedir, rel_src), p)
        return p

    def sym(self, target, rel):
        p = os.path.join(self.treedir, rel)
        os.makedirs(os.path.dirname(p), exist_ok=True)
        os.symlink(target, p)
        return p

    def describe(self):
        return {"scenario": self.name, "scenario_seed": self.seed, "group_opts": self.group_opts, "format": self.fmt,
                "op": self.op, "op_opts": [o.decode("utf-8", "replace") if isinstance(o, bytes) else o for o in self.op_opts],
                "move_dir": self.move_dir.decode("utf-8", "replace") if self.move_dir else None,
                "fake_mount": self.fake_mount, "notes": self.notes,
                "roots": [r.decode("utf-8", "replace") for r in self.roots]}

    def env(self):
        e = {"FCLONES_VERIF_DISK_KIND": "ssd"}
        if self.fake_mount and self.move_dir:
            e["FCLONES_VERIF_MOUNTS"] = "unknown=" + os.path.normpath(self.move_dir).decode("utf-8", "surrogateescape")
        if self.threads:
            e["RAYON_NUM_THREADS"] = str(self.threads)
        if getattr(self, "tz", None):
            e["TZ"] = self.tz          # the local UTC offset the report header is written / read with
        return e

    def stamp_mtimes(self, rng):
        """fixed past mtimes (with ties) so that the header's time stamp never interferes and priorities bite"""
        k = 0
        seen = set()
        for d, dirs, files in sorted(os.walk(self.treedir)):
            for n in sorted(files):
                p = os.path.join(d, n)
                st = os.lstat(p)
                if statmod.S_ISREG(st.st_mode) and st.st_ino not in seen:
                    seen.add(st.st_ino)
                    t = (T0 + 100 * rng.below(6)) * 10**9 + rng.below(3) * 1000
                    os.utime(p, ns=(t + 5 * 10**9, t))
                    k += 1

    def make_report(self):
        args = ["group"] + self.roots + self.group_opts
        rc, out, err = treegen.fclones(args + ["-f", self.fmt], cwd=self.base, env=self.env())
        if rc != 0:
            raise RuntimeError("group failed: " + err.decode("utf-8", "replace")[-400:])
        self.report = out
        if self.fmt == "json":
            jout = out
        else:
            rc, jout, err = treegen.fclones(args + ["-f", "json"], cwd=self.base, env=self.env())
        self.header, self.groups = treegen.parse_json_report(jout.decode("utf-8"))
        if self.fmt != "json":
            # the time stamp the dedupe command will use is the one of the report it reads
            m = re.search(rb"^# Timestamp: (.*)$", out, re.M)
            self.header = dict(self.header, timestamp=m.group(1).decode() if m else self.header.get("timestamp"))
        return self.groups

    def cli(self, dry_run=False, extra=()):
        a = {"remove": ["remove"], "link": ["link"], "softlink": ["link", "--soft"], "dedupe": ["dedupe"],
             "move": ["move", self.move_dir]}[self.op]
        return a + list(self.op_opts) + (["--no-lock"] if self.no_lock else []) + (["--dry-run"] if dry_run else []) + list(extra)

    def run_op(self, dry_run=False, extra=(), timeout=120):
        return treegen.fclones(self.cli(dry_run, extra), cwd=self.base, env=self.env(), stdin=self.report, timeout=timeout)


def gen_random(name, seed, base, symlinks=None, hostile=None):
    rng = core.SplitMix64(seed)
    s = Scn(name, seed, base)
    hostile = rng.chance(1, 3) if hostile is None else hostile
    use_sym = rng.chance(1, 4) if symlinks is None else symlinks
    tree = treegen.gen_tree(rng, s.treedir, nroots=1 + rng.below(3), nfiles=5 + rng.below(16), sizes=SIZES,
                            names="hostile" if hostile else "plain", hardlinks=True, symlinks=use_sym, max_depth=2,
                            families=1 + rng.below(3))
    s.roots = tree.roots
    s.hostile, s.use_sym = hostile, use_sym
    if use_sym and tree.files:
        # symlinks in OTHER directories / roots (absolute or relative), so that a link can sort before its target, sit in
        # another isolated root, or be hard-linked from elsewhere (K2 / K7 / N6 territory)
        dirs_ = sorted({os.path.dirname(f["path"]) for f in tree.files} | set(tree.roots))
        for k in range(rng.below(4)):
            f = rng.choice(tree.files)
            d = rng.choice(dirs_)
            lp = os.path.join(d, b"x%d.lnk" % k)
            if os.path.lexists(lp):
                continue
            tgt = f["path"] if rng.chance(1, 2) else os.path.relpath(f["path"], d)
            os.symlink(tgt, lp)
    s.stamp_mtimes(rng)
    if use_sym:
        s.group_opts.append("--symbolic-links")
    k = rng.below(9)
    if k == 0 and len(s.roots) >= 2:
        s.group_opts.append("--isolate")
    elif k == 1 and not use_sym:
        s.group_opts.append("--match-links")
    elif k == 2:
        s.group_opts += ["--rf-over", "2"]
    elif k == 3:
        s.group_opts += ["--rf-over", "0"] if rng.chance(1, 2) else ["--rf-under", "4"]
    s.fmt = rng.choice(["default", "json"])
    pick_opts(s, rng)
    return s


def pick_opts(s, rng, op=None):
    """choose the dedupe operation and its options; s.sem records their meaning"""
    s.op = op or rng.choice(OPS + ["remove", "link", "softlink", "move"])
    s.op_opts = []
    sem = {"n": None, "prio": [], "keep_name": [], "keep_path": [], "name": [], "path": [], "iso": [], "mlinks": False}
    if rng.chance(1, 3):
        sem["n"] = 1 + rng.below(3)
        s.op_opts += ["-n" if rng.chance(1, 2) else "--rf-over", str(sem["n"])]
    for _ in range(rng.choice([0, 0, 1, 1, 2])):
        p = rng.choice(PRIORITIES)
        sem["prio"].append(p)
        s.op_opts += ["--priority", p]
    asc_roots = [r for r in s.roots if r.isascii()]
    k = rng.below(8)
    if k == 0 and asc_roots:
        r = rng.choice(asc_roots)
        sem["keep_path"].append(("under", r))
        s.op_opts += ["--keep-path", r.decode() + "/**"]
    elif k == 1:
        d = str(rng.below(10))
        sem["keep_name"].append(("contains", d.encode()))
        s.op_opts += ["--keep-name", "*%s*" % d]
    elif k == 2:
        d = str(rng.below(10))
        sem["name"].append(("contains", d.encode()))
        s.op_opts += ["--name", "*%s*" % d]
    elif k == 3 and asc_roots:
        r = rng.choice(asc_roots)
        sem["path"].append(("under", r))
        s.op_opts += ["--path", r.decode() + "/**"]
    if rng.chance(1, 5) and asc_roots and "--isolate" not in s.group_opts:
        # --isolate PATH on the dedupe command line: "everything under PATH is one replica".  The PATHs may cover all, some or
        # none of the files of a group (files under no PATH are still grouped by device+inode).
        sub = sorted({os.path.dirname(os.path.join(d, f)) for r in asc_roots for d, _, fs_ in os.walk(r) for f in fs_
                      if os.path.dirname(os.path.join(d, f)).isascii()})
        kind = rng.choice(["all_roots", "one_root", "subdir", "outside", "outside+subdir", "two_subdirs"])
        iso = []
        if kind == "all_roots":
            iso = list(asc_roots)
        elif kind == "one_root":
            iso = [rng.choice(asc_roots)]
        elif kind == "subdir" and sub:
            iso = [rng.choice(sub)]
        elif kind == "outside":
            iso = [os.path.join(s.base, b"vault")]
        elif kind == "outside+subdir" and sub:
            iso = [os.path.join(s.base, b"vault"), rng.choice(sub)]
        elif kind == "two_subdirs" and len(sub) >= 2:
            iso = rng.shuffle(sub)[:2]
        if iso:
            os.makedirs(os.path.join(s.base, b"vault"), exist_ok=True)
            sem["iso"] = iso
            sem["iso_kind"] = kind
            for r in iso:
                s.op_opts += ["--isolate", r.decode()]
    if rng.chance(1, 12) and "--symbolic-links" not in s.group_opts:
        sem["mlinks"] = True
        s.op_opts += ["--match-links"]
    s.no_lock = rng.chance(1, 6)
    if s.op == "move":
        inside = rng.chance(1, 3)
        s.move_dir = os.path.join(s.roots[0], b"zz_moved") if inside else os.path.join(s.base, b"moved")
        s.fake_mount = rng.chance(1, 4)
    s.sem = sem
    return s


def pat_match(kind_arg, path):
    kind, arg = kind_arg
    if kind == "under":
        return path.startswith(arg + b"/")
    if kind == "contains":
        # Pattern::matches on the lossy file name: `*d*` where `*` does not cross '/'
        return arg in os.path.basename(path)
    raise ValueError(kind)


def keep_of(sem, p):
    return any(pat_match(k, p) for k in sem["keep_name"]) or any(pat_match(k, p) for k in sem["keep_path"])


def may_drop_of(sem, p):
    if not sem["name"] and not sem["path"]:
        return True
    return any(pat_match(k, p) for k in sem["name"]) or any(pat_match(k, p) for k in sem["path"])


def effective(s):
    """the configuration the dedupe command runs with: its own options merged with the recorded `group` command
    (main.rs run_dedupe) - written from the documentation, used by the oracle and handed to the model"""
    g = s.group_opts
    hdr_rf = 1
    if "--rf-over" in g:
        hdr_rf = int(g[g.index("--rf-over") + 1])
    if "--rf-under" in g or "--unique" in g:
        hdr_rf = 0
    n = s.sem["n"] if s.sem["n"] is not None else hdr_rf
    iso = list(s.sem["iso"]) or (list(s.roots) if "--isolate" in g else [])
    mlinks = s.sem["mlinks"] or "--match-links" in g
    return {"n": n, "nkeep": max(1, n), "iso": iso, "mlinks": mlinks}


# ------------------------------------------------------------------------------------------------ inventories

def inventory(base):
    return treegen.inventory(base)


def canon_temp(p, victims, existing=()):
    """<victim>.<24 alnum> -> <victim>.tmp~ for names that did NOT exist before the run (a pre-existing file with such a name
    is an ordinary file and keeps its name)"""
    if p in existing:
        return p
    m = TEMP_RE.match(p)
    if m and m.group(1) in victims:
        return m.group(1) + b".tmp~"
    if m:
        # a victim whose name is longer than 230 bytes is parked under a SHORTENED name (cut at a character boundary)
        d, stem = os.path.split(m.group(1))
        if len(stem) >= 200:
            for v in victims:
                vd, vn = os.path.split(v)
                if vd == d and len(vn) > 230:
                    cut = 230
                    while cut > 0 and (vn[cut] & 0xC0) == 0x80:
                        cut -= 1
                    if vn[:cut] == stem:
                        return v + b".tmp~"
    return p


def resolve(inv, p, depth=0):
    """the path a reader of p ends up at (following symlinks through the inventory); None if dangling / loop"""
    e = inv.get(p)
    if e is None or depth > 40:
        return None
    if e[0] == "l":
        t = e[3]
        t = t if t.startswith(b"/") else os.path.join(os.path.dirname(p), t)
        return resolve(inv, os.path.normpath(t), depth + 1)
    return p


def read_sha(inv, p):
    q = resolve(inv, p)
    if q is None:
        return None
    e = inv[q]
    return e[4] if e[0] == "f" else None


def move_target(move_dir, p):
    return os.path.normpath(move_dir + b"/." + p)


def subgroups_of(paths, ids, eff):
    """sub-groups (replicas) of one report group, from the documentation: one per isolated root (in the order given),
    then hard-link sets (single paths with --match-links) in order of first appearance; ids[p] = stat() identity"""
    out = [[] for _ in eff["iso"]]
    rest, order = {}, []
    for p in paths:
        ri = None
        for i, r in enumerate(eff["iso"]):
            if p == r or p.startswith(r.rstrip(b"/") + b"/"):
                ri = i
                break
        if ri is not None:
            out[ri].append(p)
            continue
        k = p if eff["mlinks"] else ids.get(p)
        if k not in rest:
            rest[k] = []
            order.append(k)
        rest[k].append(p)
    return [g for g in out if g] + [rest[k] for k in order]


def entry_same(a, b):
    """untouched: same type, inode, link target, bytes, mtime, mode (nlink / ctime excluded)"""
    if a is None or b is None:
        return False
    if a[0] != b[0]:
        return False
    if a[0] == "d":
        return a[6] == b[6]
    return (a[1], a[3], a[4], a[5], a[6]) == (b[1], b[3], b[4], b[5], b[6])


def c02_oracle(s, inv0, inv1, rc, err):
    """The four clauses of C02 read off the property text, evaluated on the implementation's own before/after
    inventories.  Returns a list of (signature dict, text, details)."""
    bad = []
    eff = effective(s)
    groups = s.groups
    in_report = set()
    for g in groups:
        in_report.update(g["files"])
    ids = {}
    for p in in_report:
        q = resolve(inv0, p)
        ids[p] = inv0[q][1] if q is not None and q in inv0 else ("?", p)
    links_in_report = [p for p in in_report if p in inv0 and inv0[p][0] == "l"]
    sha0 = {e[4] for e in inv0.values() if e[0] == "f"}
    sha1 = {e[4] for e in inv1.values() if e[0] == "f"}
    touched = {p for p in inv0 if not entry_same(inv0[p], inv1.get(p))}
    removed = {p for p in inv0 if p not in inv1}
    ctxt = {"removed_or_changed": sorted(x.decode("utf-8", "replace") for x in touched)[:12]}

    def different_replicas(p, q):
        """under the DOCUMENTED sub-grouping (isolated roots first, then device+inode) p and q are different replicas - only then
        is "link kept, target dropped" the known finding K2; a link and its target under no root (or the same root) are one replica"""
        for g in groups:
            if p in g["files"]:
                subs = subgroups_of([m for m in g["files"] if m in inv0], ids, eff)
                ip = [i for i, sg in enumerate(subs) if p in sg]
                iq = [i for i, sg in enumerate(subs) if q in sg]
                return bool(ip) and bool(iq) and ip[0] != iq[0]
        return False

    def classify(kind_default, detail):
        """K2: a report member that is a symlink was left in place while the file it resolves to was dropped (only
        possible when the link and its target are different replicas: --isolate with -S).
        K7: `link` used a symlink as the link source (first retained path is a symlink)."""
        sig = {"kind": kind_default}
        kept_links = [p for p in links_in_report if p not in touched]
        k2 = [p for p in kept_links if resolve(inv0, p) in touched and different_replicas(p, resolve(inv0, p))]
        if k2 and eff["iso"] and "--symbolic-links" in s.group_opts:
            sig = {"kind": "isolated_symlink_target_dropped"}
            detail = dict(detail, kept_symlink=k2[0].decode("utf-8", "replace"),
                          its_target=resolve(inv0, k2[0]).decode("utf-8", "replace"))
        elif s.op == "link" and "--symbolic-links" in s.group_opts:
            # the victim became a hard link to a symlink: same inode as a symlink that was in the report
            for p in touched:
                e1 = inv1.get(p)
                if e1 is not None and e1[0] == "l":
                    src = [q for q in links_in_report if inv0[q][1] == e1[1]]
                    if src:
                        sig = {"kind": "hardlink_to_symlink"}
                        detail = dict(detail, victim=p.decode("utf-8", "replace"), linked_symlink=src[0].decode("utf-8", "replace"),
                                      link_text=(e1[3] or b"").decode("utf-8", "replace"))
                        break
        return sig, detail

    # clause 1: every distinct content is still stored in a regular file
    lost = sha0 - sha1
    if lost:
        owners = sorted(p for p, e in inv0.items() if e[0] == "f" and e[4] in lost)
        sig, det = classify("content_lost", dict(ctxt, lost_content_of=[o.decode("utf-8", "replace") for o in owners][:6]))
        bad.append((sig, "content of %r is no longer stored in any regular file" % owners[0], det))
    # clause 2: max(1, n) replicas of every group (all if fewer) are completely untouched
    for gi, g in enumerate(groups):
        members = [p for p in g["files"] if p in inv0]
        subs = subgroups_of(members, ids, eff)
        intact = [sg for sg in subs if all(p not in touched for p in sg)]
        need = min(eff["nkeep"], len(subs))
        if len(intact) < need:
            sig, det = classify("replicas_touched", dict(ctxt, group=gi, replicas=len(subs), untouched=len(intact), required=need,
                                                        members=[m.decode("utf-8", "replace") for m in members][:10]))
            bad.append((sig, "group %d: only %d of %d replicas untouched, %d required (n = %d)" % (gi, len(intact), len(subs), need, eff["n"]), det))
    # clause 3: nothing outside the reported groups is modified; nothing new appears except below the move target
    for p in sorted(touched):
        if p in in_report or inv0[p][0] == "d":
            continue
        bad.append(({"kind": "outside_file_modified"}, "%r is not in the report but changed: %r -> %r" % (p, inv0[p], inv1.get(p)), ctxt))
        break
    for p in sorted(inv0):
        if inv0[p][0] == "d" and p not in inv1:
            bad.append(({"kind": "directory_removed"}, "directory %r disappeared" % p, ctxt))
            break
    md = os.path.normpath(s.move_dir) if s.op == "move" else None
    for p in sorted(inv1):
        if p in inv0:
            continue
        if md is not None and (p == md or p.startswith(md + b"/")):
            continue
        bad.append(({"kind": "unexpected_new_entry"}, "new entry %r after the run (temp file left behind?)" % p, ctxt))
        break
    # clause 4
    if s.op in ("link", "softlink", "dedupe"):
        for p in sorted(inv0):
            e0 = inv0[p]
            if e0[0] not in ("f", "l"):
                continue
            before = read_sha(inv0, p)
            if before is None:
                continue
            after = read_sha(inv1, p)
            if after != before:
                sig, det = classify("path_not_readable_back", dict(ctxt, path=p.decode("utf-8", "replace"),
                                                                  now=repr(inv1.get(p))[:200]))
                bad.append((sig, "%r no longer reads back the same bytes after %s (now %s)" % (p, s.op, "missing" if p not in inv1 else inv1[p][0]), det))
                break
    if s.op == "move":
        under = {e[4] for p, e in inv1.items() if e[0] == "f" and (p == md or p.startswith(md + b"/"))}
        for p in sorted(removed):
            e0 = inv0[p]
            if e0[0] == "d":
                continue
            before = read_sha(inv0, p)
            if before is None:
                continue
            tgt = move_target(s.move_dir, p)
            if e0[0] == "f":
                ok = read_sha(inv1, tgt) == before
            else:
                ok = before in under        # a moved symlink: its bytes must be readable somewhere under DIR
            if not ok:
                sig = {"kind": "moved_bytes_not_readable"}
                tq = resolve(inv0, p)
                if e0[0] == "l" and eff["iso"] and "--symbolic-links" in s.group_opts and tq is not None and tq not in removed \
                        and different_replicas(p, tq):
                    # K2's mirror image: isolation made the SYMLINK a replica of its own (its target, in another root, is kept);
                    # the relative link is moved alone and dangles under DIR
                    sig = {"kind": "isolated_symlink_moved_without_its_target"}
                bad.append((sig, "%r was moved but its bytes are not readable at %r" % (p, tgt),
                            dict(ctxt, path=p.decode("utf-8", "replace"), link_text=(e0[3] or b"").decode("utf-8", "replace"),
                                 resolved_to=(tq or b"?").decode("utf-8", "replace"))))
                break
    if rc not in (0,):
        bad.append(({"kind": "dedupe_command_failed"}, "fclones %s exited %d: %s" % (s.op, rc, err[-300:].decode("utf-8", "replace")), ctxt))
    return bad


# ------------------------------------------------------------------------------------------------ model side

def parse_ts(text):
    """'2026-09-30 22:53:30.552 +0000' (text report) or '2026-09-30T23:04:50.639169326Z' / '...+01:00' (JSON) -> ns"""
    import calendar
    m = re.match(r"(\d+)-(\d+)-(\d+)[ T](\d+):(\d+):(\d+)(?:\.(\d+))? ?(Z|[+-]\d\d:?\d\d)", text)
    y, mo, d, h, mi, sec = (int(m.group(i)) for i in range(1, 7))
    frac = m.group(7) or ""
    z = m.group(8)
    off = 0
    if z != "Z":
        zz = z.replace(":", "")
        off = (int(zz[1:3]) * 3600 + int(zz[3:5]) * 60) * (1 if zz[0] == "+" else -1)
    t = calendar.timegm((y, mo, d, h, mi, sec)) - off
    return t * 10**9 + int((frac + "000000000")[:9])


def model_tree(s, inv0):
    """the tree / aux part of a model case; must be computed BEFORE the dedupe command runs (reads the files)"""
    ents = []
    inos = {}
    auxs = {}
    for p in sorted(inv0):
        e = inv0[p]
        if e[0] == "d":
            ents.append("D" + pct(p))
        elif e[0] == "l":
            t = e[3]
            t = t if t.startswith(b"/") else os.path.normpath(os.path.join(os.path.dirname(p), t))
            ents.append("L%s@%s" % (pct(t), pct(p)))
        elif e[0] == "f":
            ents.append("F%d@%s" % (e[1], pct(p)))
            if e[1] not in inos:
                with open(p, "rb") as f:
                    data = f.read()
                inos[e[1]] = "I%d:%d:%s" % (e[1], e[5], data.hex().upper() or "-")
                sx = statx(p)
                auxs[e[1]] = "%d:%d:%d:%d:%d:%d" % (e[1], sx["dev"], sx["atime"], sx["btime"] if sx["btime"] is not None else -1,
                                                     sx["ctime"][0], sx["ctime"][1])
    d = s.base
    anc = []
    while d != b"/":
        d = os.path.dirname(d)
        anc.append("D" + pct(d))
    ents = anc[::-1] + ["D" + pct(s.base)] + ents
    return ",".join(ents + list(inos.values())), ",".join(auxs.values()) or "-"


def model_line(s, tree_aux, queries, order="fwd", tmp_sfx="tmp~"):
    """One case for drv_X.ml (format documented there)."""
    eff = effective(s)
    gs = []
    for g in s.groups:
        ms = []
        for p in g["files"]:
            sm = 0 if s.fake_mount else 1
            ms.append("%s~%d%d%d" % (pct(p), 1 if keep_of(s.sem, p) else 0, 1 if may_drop_of(s.sem, p) else 0, sm))
        gs.append("%d@%s" % (g["len"], ",".join(ms)))
    prio = ",".join(str(PRIORITIES.index(p)) for p in s.sem["prio"]) or "-"
    op = OPCODE[s.op] + ((":" + pct(s.move_dir)) if s.op == "move" else "")
    ts = parse_ts(s.header["timestamp"])
    return "run op=%s sl=%d n=%d ml=%d mb=%d prio=%s iso=%s order=%s sfx=%s tree=%s aux=%s groups=%s q=%s" % (
        op, 0 if s.no_lock else 1, eff["n"], 1 if eff["mlinks"] else 0, ts, prio,
        ",".join(pct(r) for r in eff["iso"]) or "-", order, tmp_sfx, tree_aux[0], tree_aux[1], ";".join(gs) or "-",
        ",".join(pct(q) for q in queries) or "-")


def parse_model_out(line):
    if line.startswith("EXN"):
        raise RuntimeError("model driver: " + line)
    kv = dict(t.split("=", 1) for t in line.split(" "))
    return {"cmds": [c for c in kv["cmds"].split(";") if c and c != "-"],
            "results": [x for x in kv["results"].split(",") if x and x != "-"],
            "processed": int(kv["processed"]), "reclaimed": int(kv["reclaimed"]),
            "state": kv["state"].split(",") if kv["state"] not in ("", "-") else [],
            "script": kv.get("script", "-"), "dry": kv.get("dry", "0:0")}


def real_views(inv, queries):
    """the real tree in the vocabulary of the model's views: - | D | L<abs target> | F<class>:<mtime>:<sha of bytes>"""
    out = []
    for q in queries:
        e = inv.get(q)
        if e is None:
            out.append(("-",))
        elif e[0] == "d":
            out.append(("D",))
        elif e[0] == "l":
            out.append(("L", e[3]))
        elif e[0] == "f":
            out.append(("F", e[1], e[5], e[4]))
        else:
            out.append(("O",))
    return out


def compare_final(queries, inv0, inv1, mstate, victims):
    """final tree of the implementation vs the model's, up to inode renumbering; returns None or a description"""
    from .a_common import unpct
    if len(mstate) != len(queries):
        return "model printed %d views for %d queries" % (len(mstate), len(queries))
    raws = {}
    for p, e in inv0.items():
        if e[0] == "l":
            t = e[3] if e[3].startswith(b"/") else os.path.normpath(os.path.join(os.path.dirname(p), e[3]))
            raws.setdefault(os.path.normpath(t), set()).add(e[3])
    inv1c = {canon_temp(p, victims, inv0): e for p, e in inv1.items()}
    rcls, mcls = {}, {}
    for q, mv in zip(queries, mstate):
        e = inv1c.get(q)
        if mv == "-":
            if e is not None:
                return "%r exists after the real run (%s) but not in the model" % (q, e[0])
            continue
        if e is None:
            return "%r is %s in the model's final tree but missing after the real run" % (q, mv[:40])
        if mv == "D":
            if e[0] != "d":
                return "%r: model directory, real %s" % (q, e[0])
        elif mv[0] == "L":
            t = unpct(mv[1:]).encode("utf-8", "surrogateescape")
            if e[0] != "l":
                return "%r: model symlink -> %r, real %s" % (q, t, e[0])
            if e[3] != t and e[3] not in raws.get(t, ()):
                return "%r: model symlink -> %r, real symlink -> %r" % (q, t, e[3])
        elif mv[0] == "F":
            ino, mt, hx = mv[1:].split(":")
            if e[0] != "f":
                return "%r: model regular file, real %s" % (q, e[0])
            data = bytes.fromhex(hx) if hx not in ("-", "?") else b""
            if hashlib.sha256(data).hexdigest() != e[4]:
                return "%r: bytes differ between model and implementation" % (q,)
            if int(mt) >= 0 and int(mt) != e[5]:
                return "%r: mtime model %s real %d" % (q, mt, e[5])
            if int(mt) < 0 and e[5] < (T0 + 10**7) * 10**9:
                return "%r: model says written now, real mtime is an old one (%d)" % (q, e[5])
            mcls.setdefault(ino, []).append(q)
            rcls.setdefault(e[1], []).append(q)
    if sorted(map(tuple, mcls.values())) != sorted(map(tuple, rcls.values())):
        return "hard-link structure differs: model %r real %r" % (sorted(map(tuple, mcls.values()))[:6], sorted(map(tuple, rcls.values()))[:6])
    return None


# ------------------------------------------------------------------------------------------------ dry-run parsing

def canon_script(text, victims_known=None):
    """dry-run stdout -> list of lines with the 24-character temp suffix replaced by tmp~"""
    lines = text.split(b"\n")
    if lines and lines[-1] == b"":
        lines.pop()
    out = []
    for l in lines:
        out.append(re.sub(rb"\.[A-Za-z0-9]{24}(?=('|\s|$))", b"." + CANON_SFX.encode(), l))
    return out


SUMMARY_RE = re.compile(rb"(Would process|Processed) (\d+) files and (?:reclaim|reclaimed) (up to )?(.+?) space")


def summary(err):
    m = SUMMARY_RE.search(err)
    if not m:
        return None
    return {"n": int(m.group(2)), "bytes_text": m.group(4).decode(), "upto": bool(m.group(3))}


def snapshot(src, dst):
    shutil.rmtree(dst, ignore_errors=True)
    subprocess.run(["cp", "-a", src, dst], check=True)
