"""C02 — deduplication never destroys the last copy of any content (engine X, on top of engines D, A, T).

Proof obligations: coq/Props_C02.v over coq/EffectsModel.v (composition of DedupeModel's partition/script with
AtomicModel's command programs, executed fault-free in EVERY order).

Tie to the code (every run):
  tree (treegen: hostile names incl. leading/trailing blanks, quotes, newlines, non-UTF-8; hard-link sets; symlinks
  reported with -S; 1-3 roots) -> `fclones group <options recorded in the header>` (text or JSON report) ->
  `fclones remove | link | link --soft | dedupe | move DIR [options]` -> full inventory before/after.
  (a) the SAME report + inventory + option semantics go through the extracted model (stat_fs -> dedupe_group ->
      fcmd_of -> run); the final tree is compared up to inode renumbering and temp names, in script order AND in
      reversed order (C02_order_independent at run time);
  (b) an independent Python oracle evaluates the four clauses of the property text on the implementation's own
      before/after inventories (x_common.c02_oracle): contents preserved, max(1,n) replicas untouched, nothing
      outside the report modified, original paths read back (links) / bytes readable under DIR (move).
Known findings reproduced on every run (directed cases + whatever the random trees hit): K2, K7.
"""
import json
import os
import shutil
from concurrent.futures import ThreadPoolExecutor

from .. import core, treegen
from . import x_common as X


# ------------------------------------------------------------------------------------------------ directed scenarios

def d_k2(name, seed, base, op="remove"):
    """K2: group -S --isolate r1 r2 with r1/L -> r2/T; T is a different replica than L and is dropped"""
    rng = core.SplitMix64(seed)
    s = X.Scn(name, seed, base)
    data = treegen.content(seed, 100)
    s.roots = [os.path.join(s.treedir, b"r1"), os.path.join(s.treedir, b"r2")]
    s.mk(b"r2/T", data)
    rel = rng.chance(1, 2)
    s.sym(b"../r2/T" if rel else os.path.join(s.treedir, b"r2/T"), b"r1/L")
    s.mk(b"r1/other", treegen.content(seed + 1, 50))
    s.stamp_mtimes(rng)
    s.group_opts = ["--symbolic-links", "--isolate"]
    s.fmt = rng.choice(["default", "json"])
    X.pick_opts(s, core.SplitMix64(0), op=op)
    s.op_opts, s.sem = [], {"n": None, "prio": [], "keep_name": [], "keep_path": [], "name": [], "path": [], "iso": [], "mlinks": False}
    s.no_lock = False
    s.use_sym, s.hostile = True, False
    return s


def d_k7(name, seed, base):
    """K7: with -S the first retained path is a symlink (a/L -> ../b/T, sorted before its target); `link` hard-links
    the symlink itself into c/d, from where the relative target resolves elsewhere"""
    rng = core.SplitMix64(seed)
    s = X.Scn(name, seed, base)
    data = treegen.content(seed, 100)
    s.roots = [os.path.join(s.treedir, b"r0")]
    s.mk(b"r0/b/T", data)
    s.sym(b"../b/T", b"r0/a/L")
    s.mk(b"r0/c/d/F", data)
    s.stamp_mtimes(rng)
    s.group_opts = ["--symbolic-links"]
    s.fmt = rng.choice(["default", "json"])
    X.pick_opts(s, core.SplitMix64(0), op="link")
    s.op_opts, s.sem = [], {"n": None, "prio": [], "keep_name": [], "keep_path": [], "name": [], "path": [], "iso": [], "mlinks": False}
    s.no_lock = False
    s.use_sym, s.hostile = True, False
    return s


def d_linkset_rf2(name, seed, base):
    """a retained hard-link set with two names counts as ONE replica: with --rf-over 2 a second physical copy stays"""
    rng = core.SplitMix64(seed)
    s = X.Scn(name, seed, base)
    data = treegen.content(seed, 50)
    s.roots = [os.path.join(s.treedir, b"r0")]
    s.mk(b"r0/a", data)
    s.ln(b"r0/a", b"r0/b")
    for n in (b"c", b"d", b"e")[:2 + rng.below(2)]:
        s.mk(b"r0/" + n, data)
    s.stamp_mtimes(rng)
    s.group_opts = ["--rf-over", "2"] if rng.chance(1, 2) else []
    s.fmt = rng.choice(["default", "json"])
    X.pick_opts(s, core.SplitMix64(0), op=rng.choice(["remove", "link", "softlink", "move"]))
    s.op_opts, s.sem = [], {"n": None, "prio": [], "keep_name": [], "keep_path": [], "name": [], "path": [], "iso": [], "mlinks": False}
    if not s.group_opts:
        s.op_opts, s.sem["n"] = ["-n", "2"], 2
    if rng.chance(1, 2):
        # the link set is retained because of a keep pattern (forced), the top-up to n must still add a second replica
        s.op_opts += ["--keep-name", "*a*"]
        s.sem["keep_name"].append(("contains", b"a"))
        s.notes.append("link set {a, b} force-kept by --keep-name")
    s.no_lock = False
    s.use_sym, s.hostile = False, False
    return s


def d_move_parked(name, seed, base):
    """`move` into a DIR that already holds a (parked, last) copy at one of the target paths: must refuse that file"""
    rng = core.SplitMix64(seed)
    s = X.Scn(name, seed, base)
    data = treegen.content(seed, 50)
    s.roots = [os.path.join(s.treedir, b"r0")]
    names = [b"x/f", b"y/f", b"z/g"]
    for n in names:
        s.mk(b"r0/" + n, data)
    s.stamp_mtimes(rng)
    s.fmt = rng.choice(["default", "json"])
    X.pick_opts(s, core.SplitMix64(0), op="move")
    s.op_opts, s.sem = [], {"n": None, "prio": [], "keep_name": [], "keep_path": [], "name": [], "path": [], "iso": [], "mlinks": False}
    s.move_dir = os.path.join(s.base, b"moved")
    s.fake_mount = rng.chance(1, 3)
    s.no_lock = False
    # the parked last copy of some other content sits where y/f would go
    parked = X.move_target(s.move_dir, os.path.join(s.treedir, b"r0/y/f"))
    os.makedirs(os.path.dirname(parked), exist_ok=True)
    with open(parked, "wb") as f:
        f.write(treegen.content(seed + 7, 60))
    os.utime(parked, ns=(X.T0 * 10**9, X.T0 * 10**9))
    s.use_sym, s.hostile = False, False
    s.notes.append("pre-existing file at the move target of r0/y/f")
    return s


def d_cli_isolate(name, seed, base):
    """--isolate <dir> on the DEDUPE command line, the dir covering none of the files of the group: the uncovered files must
    still be grouped by device+inode.  Variant A: -S, 0link -> a, a, b (the link sorts first); remove / move / link --soft.
    Variant B: hard-link pair p, q + independent copy z, -n 2: the pair is ONE replica, z must stay."""
    rng = core.SplitMix64(seed)
    s = X.Scn(name, seed, base)
    data = treegen.content(seed, 60)
    s.roots = [os.path.join(s.treedir, b"data")]
    variant = "A" if name.split("_")[2] in ("a", "c") else "B"
    if variant == "A":
        s.mk(b"data/a", data)
        s.mk(b"data/b", data)
        s.sym(os.path.join(s.treedir, b"data/a"), b"data/0link")
        s.group_opts = ["--symbolic-links"]
    else:
        s.mk(b"data/p", data)
        s.ln(b"data/p", b"data/q")
        s.mk(b"data/z", data)
    s.mk(b"vault/other", treegen.content(seed + 3, 20))
    s.stamp_mtimes(rng)
    s.fmt = rng.choice(["default", "json"])
    X.pick_opts(s, core.SplitMix64(0), op=rng.choice(["remove", "move", "softlink"] if variant == "A" else ["remove", "move", "link", "softlink"]))
    vault = os.path.join(s.treedir, b"vault")
    s.op_opts = ["--isolate", vault.decode()]
    s.sem = {"n": None, "prio": [], "keep_name": [], "keep_path": [], "name": [], "path": [], "iso": [vault], "mlinks": False}
    if variant == "B":
        s.op_opts += ["-n", "2"]
        s.sem["n"] = 2
    s.no_lock = False
    s.fake_mount = False
    s.use_sym, s.hostile = variant == "A", False
    s.notes.append("dedupe-side --isolate on a directory that covers no file of the group (variant %s)" % variant)
    return s


def d_matchlinks(name, seed, base):
    """--match-links report in which a victim already IS a hard link of the retained file (a, b = link of a, c = copy):
    `link` must leave exactly the report's names, no stray temp file; `remove` / `link --soft` likewise"""
    rng = core.SplitMix64(seed)
    s = X.Scn(name, seed, base)
    data = treegen.content(seed, 40)
    two_roots = rng.chance(1, 2)
    s.roots = [os.path.join(s.treedir, b"A"), os.path.join(s.treedir, b"B")] if two_roots else [os.path.join(s.treedir, b"A")]
    s.mk(b"A/a", data)
    s.ln(b"A/a", b"B/b" if two_roots else b"A/b")
    s.mk(b"B/c" if two_roots else b"A/sub/c", data)
    s.stamp_mtimes(rng)
    s.group_opts = ["--isolate"] if (two_roots and rng.chance(1, 2)) else ["--match-links"]
    s.fmt = rng.choice(["default", "json"])
    X.pick_opts(s, core.SplitMix64(0), op=rng.choice(["link", "link", "softlink", "remove"]))
    s.op_opts, s.sem = [], {"n": None, "prio": [], "keep_name": [], "keep_path": [], "name": [], "path": [], "iso": [], "mlinks": False}
    s.no_lock = False
    s.use_sym, s.hostile = False, False
    s.notes.append("victim is already a hard link of the retained file")
    return s


DIRECTED = [("matchlinks_a", d_matchlinks), ("matchlinks_b", d_matchlinks), ("matchlinks_c", d_matchlinks), ("cli_isolate_a", d_cli_isolate), ("cli_isolate_b", d_cli_isolate), ("cli_isolate_c", d_cli_isolate), ("cli_isolate_d", d_cli_isolate),
            ("k2_remove", lambda n, sd, b: d_k2(n, sd, b, "remove")), ("k2_softlink", lambda n, sd, b: d_k2(n, sd, b, "softlink")),
            ("k2_link", lambda n, sd, b: d_k2(n, sd, b, "link")), ("k7", d_k7),
            ("linkset_rf2_a", d_linkset_rf2), ("linkset_rf2_b", d_linkset_rf2), ("linkset_rf2_c", d_linkset_rf2),
            ("move_parked_a", d_move_parked), ("move_parked_b", d_move_parked)]


def build(kind, name, seed, base):
    for k, f in DIRECTED:
        if k == kind:
            return f(name, seed, base)
    if kind in ("random_sym", "random_sym_stale"):
        return X.gen_random(name, seed, base, symlinks=True)
    return X.gen_random(name, seed, base)


def make_stale(s, groups, seed):
    """Between `group` and the dedupe command some reported regular files stop being replicas of their group:
      swap   - another (older) file of a DIFFERENT length is moved into place, its old mtime preserved (`mv old dup`, `cp -p`,
               `rsync -t`): only the length guard of partition() can notice;
      trunc  - truncated / extended in place with the mtime set back (hard links of the inode change with it);
      fresh  - rewritten by an ordinary write (same or other length) stamped after the report: the whole group is skipped.
    The model sees the changed tree (inventory is taken afterwards); the oracle's clause 1 protects the new content."""
    rng = core.SplitMix64(seed ^ 0x57A1E)
    cands = sorted({p for g in groups for p in g["files"] if os.path.isfile(p) and not os.path.islink(p)})
    done = []
    if not cands:
        return done
    for p in rng.shuffle(cands)[:1 + rng.below(2)]:
        st = os.lstat(p)
        how = rng.choice(["swap", "swap", "trunc", "fresh"])
        n = st.st_size
        newlen = rng.choice([max(0, n - 1), n + 1, n // 2, n + 17, 0]) if how != "fresh" else rng.choice([n, n + 3])
        if how != "fresh" and newlen == n:
            newlen = n + 1
        data = treegen.content(seed + 7919 * (len(done) + 1), newlen)
        if how == "swap":
            tmp = p + b".swp~"
            with open(tmp, "wb") as f:
                f.write(data)
            os.replace(tmp, p)
            os.utime(p, ns=(st.st_atime_ns, st.st_mtime_ns))
        elif how == "trunc":
            with open(p, "r+b") as f:
                f.truncate(0)
                f.write(data)
            os.utime(p, ns=(st.st_atime_ns, st.st_mtime_ns))
        else:
            with open(p, "wb") as f:
                f.write(data)
            import time as _t
            t = _t.time_ns() + 2 * 10**9
            os.utime(p, ns=(t, t))
        done.append((how, p.decode("utf-8", "replace"), n, newlen))
    return done


# ------------------------------------------------------------------------------------------------ one case

def run_case(model, scratch, kind, idx, seed):
    """returns dict(scn description, violations [(sig, what, payload, found_input)], stats)"""
    name = "%s_%d" % (kind, idx)
    base = os.path.join(scratch, name).encode()
    os.makedirs(base, exist_ok=True)
    out = {"viol": [], "bump": [], "nontrivial": False, "key": (kind, seed), "count": 0, "sample": None}
    s = build(kind, name, seed, base)
    if kind.endswith("_stale"):
        # the header's time stamp carries the local UTC offset: group and the dedupe command run in a zone east / west of UTC
        s.tz = [None, "UTC-3", "UTC+5", "UTC-5:30"][(seed >> 7) % 4]
    payload = dict(s.describe(), tz=getattr(s, "tz", None), replay_how="./check C02 --replay <this file> rebuilds the tree from (kind, scenario_seed) and re-runs it",
                   kind=kind, index=idx)
    try:
        groups = s.make_report()
    except RuntimeError as e:
        out["viol"].append(({"kind": "group_failed"}, str(e), payload, False))
        return out
    payload["report"] = s.report.decode("utf-8", "replace")[:3000]
    stale = make_stale(s, groups, seed) if kind.endswith("_stale") else []
    if stale:
        payload["made_stale_after_group"] = stale
    inv0 = X.inventory(s.base)
    tree_aux = X.model_tree(s, inv0) if model else None
    sym_in_report = any(inv0.get(p, ("?",))[0] == "l" for g in groups for p in g["files"])
    if sym_in_report:
        s.threads = 1       # with symlink victims the outcome depends on the execution order (N6): make it the script order
    rc, stdout, err = s.run_op()
    inv1 = X.inventory(s.base)
    out["count"] += 1
    payload["stderr"] = err.decode("utf-8", "replace")[-1500:]
    payload["cli"] = [a.decode("utf-8", "replace") if isinstance(a, bytes) else a for a in s.cli()]
    changed = sorted(p for p in inv0 if not X.entry_same(inv0[p], inv1.get(p)) and inv0[p][0] != "d")
    out["nontrivial"] = bool(groups) and bool(changed)
    eff = X.effective(s)
    out["bump"] += [("op", s.op), ("format", s.fmt), ("group_opts", " ".join(s.group_opts) or "default"),
                    ("names", "hostile" if getattr(s, "hostile", False) else "plain"),
                    ("symlinks_reported", int(any(inv0.get(p, ("?",))[0] == "l" for g in groups for p in g["files"]))),
                    ("hardlinks_in_report", int(any(inv0.get(p, ("?", 0, 1))[2] > 1 for g in groups for p in g["files"] if inv0.get(p, ("?",))[0] == "f"))),
                    ("n_effective", eff["n"]), ("groups", min(len(groups), 8)), ("files_changed", min(len(changed), 10)),
                    ("priority", ",".join(s.sem["prio"]) or "-"),
                    ("patterns", "+".join(k for k in ("keep_name", "keep_path", "name", "path") if s.sem[k]) or "-"),
                    ("cli_isolate", s.sem.get("iso_kind", "directed" if s.sem["iso"] else "-")), ("cli_match_links", int(s.sem["mlinks"])),
                    ("lock", "no-lock" if s.no_lock else "lock"), ("kind", kind if kind.startswith("random") else "directed"),
                    ("stale_members", "+".join(sorted(h for h, _, _, _ in stale)) or "-"), ("TZ", getattr(s, "tz", None) or "unset")]
    if s.op == "move":
        out["bump"].append(("move_dir", ("inside" if s.move_dir.startswith(s.treedir) else "outside") + ("+other_mount" if s.fake_mount else "")))
    # (b) the independent oracle
    bad = X.c02_oracle(s, inv0, inv1, rc, err)
    for sig, what, det in bad:
        out["viol"].append((sig, what, dict(payload, **det), True))
    # (a) the model
    if model:
        victims = set(changed)
        queries = sorted(set(inv0) | {X.canon_temp(p, victims, inv0) for p in inv1})
        try:
            lines = [X.model_line(s, tree_aux, queries, order=o) for o in ("fwd", "rev")]
            res = [X.parse_model_out(l) for l in core.run_lines(model, lines)]
        except Exception as e:
            out["viol"].append(({"kind": "model_driver_failed"}, "model driver: %r" % (e,), payload, False))
            return out
        out["count"] += 2
        m = res[0]
        diff = X.compare_final(queries, inv0, inv1, m["state"], victims)
        oracle_failed = bool(bad)
        # FsModel follows only absolute link targets (the model's tree has them absolutised).  When K7 re-creates a RELATIVE
        # symlink in another directory the implementation resolves it from there and the model cannot follow: attribute the
        # disagreement to K7 (the oracle has flagged exactly that on this case), never to anything else.
        k7_here = any(b[0].get("kind") == "hardlink_to_symlink" for b in bad) and any(
            inv0.get(p, ("?",))[0] == "l" and not inv0[p][3].startswith(b"/") for g in groups for p in g["files"])
        if diff and k7_here:
            out["viol"].append(({"kind": "hardlink_to_symlink"}, "model/implementation differ after K7 on a relative symlink: " + diff, payload, True))
            diff = None
        if diff:
            out["viol"].append(({"kind": "model_tree_mismatch"}, "final tree of `fclones %s` differs from the model's: %s" % (s.op, diff),
                                dict(payload, model_cmds=m["cmds"][:30], correspondence="EffectsModel.whole_run vs the binary"),
                                oracle_failed))
        summ = X.summary(err)
        if summ is not None and summ["n"] != m["processed"] and not k7_here:
            out["viol"].append(({"kind": "model_count_mismatch"}, "Processed %d files, model %d" % (summ["n"], m["processed"]),
                                dict(payload, model_cmds=m["cmds"][:30]), oracle_failed))
        if res[1]["state"] != m["state"] or res[1]["processed"] != m["processed"]:
            # inode numbers of freshly created files may differ between the two orders: compare through the real tree
            d2 = X.compare_final(queries, inv0, inv1, res[1]["state"], victims)
            if d2 and sym_in_report:
                # a symlink AND its target are victims: the lock probe of the link fails once the target is gone
                # (observation N6, see notes/X.md; the real run was single-threaded = the model's forward order)
                out["bump"].append(("order_dependent_symlink_victims", 1))
            elif d2:
                out["viol"].append(({"kind": "model_order_dependent"}, "the model's final tree depends on the order of the commands: " + d2,
                                    dict(payload, model_cmds=m["cmds"][:30]), oracle_failed))
        out["bump"].append(("model_commands", min(len(m["cmds"]), 10)))
    out["sample"] = {"scenario": name, "op": s.op, "opts": payload["cli"][1:], "group_opts": s.group_opts, "groups": len(groups),
                     "changed": len(changed), "oracle": [b[0]["kind"] for b in bad]}
    shutil.rmtree(base, ignore_errors=True)
    return out


def fault_move_case(scratch, idx, seed):
    """`move` by copy (the target directory registered as another mount) with a write fault on the LAST block of the copy: a
    per-process file size limit (RLIMIT_FSIZE, SIGXFSZ ignored) makes write(2) / copy_file_range fail with EFBIG at a chosen
    offset, exactly like ENOSPC on a full target.  Oracle (clause 4 of C02 for move, under this one fault): every reported
    path still holds its bytes at the original path, or a COMPLETE copy is readable at move_target; never neither."""
    import resource
    import signal
    import subprocess
    name = "move_fault_%d" % idx
    base = os.path.join(scratch, name).encode()
    os.makedirs(base, exist_ok=True)
    out = {"viol": [], "bump": [("kind", "directed"), ("op", "move+write_fault")], "nontrivial": True, "key": ("move_fault", seed), "count": 1,
           "sample": None}
    rng = core.SplitMix64(seed)
    s = X.Scn(name, seed, base)
    size = rng.choice([6000, 9000, 20000, 20480, 33000])
    limit_kib = max(1, (size - 1 - rng.below(3000)) // 1024)        # the limit cuts inside the last 8 KiB of the file
    data = treegen.content(seed, size)
    s.roots = [os.path.join(s.treedir, b"r0")]
    for n in (b"keep.bin", b"spare.bin", b"sub/third.bin")[:2 + rng.below(2)]:
        s.mk(b"r0/" + n, data)
    s.stamp_mtimes(rng)
    s.fmt = rng.choice(["default", "json"])
    X.pick_opts(s, core.SplitMix64(0), op="move")
    s.op_opts, s.sem = [], {"n": None, "prio": [], "keep_name": [], "keep_path": [], "name": [], "path": [], "iso": [], "mlinks": False}
    s.move_dir = os.path.join(s.base, b"moved")
    s.fake_mount, s.no_lock = True, False
    payload = dict(s.describe(), kind="move_fault", index=idx, file_size=size, rlimit_fsize_kib=limit_kib,
                   replay_how="(trap '' XFSZ; ulimit -f %d; FCLONES_VERIF_MOUNTS=unknown=<DIR> fclones move <DIR> < report) on files of %d bytes" % (limit_kib, size))
    try:
        groups = s.make_report()
    except RuntimeError as e:
        out["viol"].append(({"kind": "group_failed"}, str(e), payload, False))
        return out
    inv0 = X.inventory(s.base)

    def limited():
        signal.signal(signal.SIGXFSZ, signal.SIG_IGN)
        resource.setrlimit(resource.RLIMIT_FSIZE, (limit_kib * 1024, limit_kib * 1024))
    env = dict(os.environ)
    env.update(s.env())
    env.setdefault("NO_COLOR", "1")
    p = subprocess.run([os.path.join(core.BIN, "fclones")] + s.cli(), cwd=s.base, env=env, input=s.report, stdout=subprocess.PIPE,
                       stderr=subprocess.PIPE, preexec_fn=limited, timeout=120)
    inv1 = X.inventory(s.base)
    payload["stderr"] = p.stderr.decode("utf-8", "replace")[-1200:]
    out["bump"] += [("fault_file_size", size), ("format", s.fmt)]
    for g in groups:
        for pth in g["files"]:
            before = X.read_sha(inv0, pth)
            if before is None:
                continue
            at_path = X.read_sha(inv1, pth) == before
            tgt = X.move_target(s.move_dir, pth)
            at_target = X.read_sha(inv1, tgt) == before
            if not at_path and not at_target:
                e = inv1.get(tgt)
                out["viol"].append(({"kind": "moved_source_deleted_without_complete_copy"},
                                    "write fault on the last block of a move-by-copy: %r is gone and the copy at %r is %s" % (
                                        pth, tgt, "missing" if e is None else "truncated to %s of %d bytes" % (e[7], size)),
                                    payload, True))
    summ = X.summary(p.stderr)
    moved = [pth for g in groups for pth in g["files"] if pth not in inv1]
    if summ is not None and summ["n"] != len(moved):
        out["viol"].append(({"kind": "move_fault_miscounted"}, "Processed %d files but %d sources are gone" % (summ["n"], len(moved)), payload, True))
    out["sample"] = {"scenario": name, "size": size, "limit_kib": limit_kib, "moved": len(moved), "stderr_tail": payload["stderr"][-200:]}
    shutil.rmtree(base, ignore_errors=True)
    return out


def run(ctx):
    ctx.rule = ("case = (generated tree, `group` options recorded in the header, report format, dedupe operation, its options); "
                "non-trivial = the report has groups and the run changed at least one file; distinct = distinct scenario seed. "
                "Directed cases (K2 x3 ops, K7, retained hard-link set with n=2, move onto a parked copy) run first, then random trees "
                "(1/4 with symlinks reported by -S, 1/3 with shell-hostile / non-UTF-8 names; 1/5 with members made STALE between "
                "`group` and the dedupe command: another file of a different length moved into place with its old mtime, in-place "
                "truncation with the mtime set back, fresh rewrite)")
    ctx.assumptions = ["the sandbox file system refuses FICLONE (EOPNOTSUPP): `dedupe` must leave every file untouched, which is still a C02 case",
                       "one device: the per-device split of link/dedupe is exercised at API level by engine D only",
                       "temp-file names do not collide with existing names (24 random alphanumerics)"]
    ctx.trusted += ["coq/driver/drv_X.ml (case parser / printer of the whole-run model)",
                    "vlib/props/x_common.py: tree generator, ctypes statx (btime), inventories, the Python reading of the generated option "
                    "sets (`*d*` name patterns, `<root>/**` path patterns, header merge) and the four-clause oracle",
                    "engine D's and engine A's models (DedupeModel.v, FsModel.v, AtomicModel.v), tied to the code by C08/C04/C05/C18/C20"]
    ctx.use_coq()
    core.build_fclones()
    model = None
    if os.path.exists(os.path.join(core.COQ, "Extract_X.v")):
        model = core.build_model("X")
    cases = []
    if ctx.replay:
        rp = json.load(open(ctx.replay))
        cases.append((rp["kind"], rp.get("index", 0), rp["scenario_seed"]))
    else:
        for i, (k, _) in enumerate(DIRECTED):
            cases.append((k, i, ctx.rng.next()))
        n = ctx.pick(220, 4000)
        for i in range(n):
            k = "random_sym" if i % 9 == 0 else "random"
            cases.append((k + "_stale" if i % 5 == 3 else k, i, ctx.rng.next()))
    fault_cases = []
    if not ctx.replay:
        fault_cases = [("move_fault", i, ctx.rng.next()) for i in range(ctx.pick(4, 40))]
    elif cases and cases[0][0] == "move_fault":
        fault_cases, cases = cases, []
    with ThreadPoolExecutor(max_workers=min(12, core.NCPU)) as ex:
        results = list(ex.map(lambda c: _guard(model, ctx.scratch, c), cases))
        fresults = list(ex.map(lambda c: _guard_fault(ctx.scratch, c), fault_cases))
    cases = cases + fault_cases
    results = results + fresults
    for c, r in zip(cases, results):
        ctx.count(r["count"])
        ctx.distinct(r["key"], r["nontrivial"])
        for d, v in r["bump"]:
            ctx.bump(d, v)
        if r["sample"]:
            ctx.sample(r["sample"])
        for sig, what, payload, found in r["viol"]:
            ctx.violation(sig, what, payload, found_input=found)


def _guard_fault(scratch, c):
    try:
        return fault_move_case(scratch, c[1], c[2])
    except Exception as e:
        import traceback
        return {"viol": [({"kind": "case_crashed"}, "case %r crashed: %r" % (c, e), {"kind": c[0], "index": c[1], "scenario_seed": c[2],
                                                                                   "error": traceback.format_exc()[-2000:]}, False)],
                "bump": [], "nontrivial": False, "key": c, "count": 0, "sample": None}


def _guard(model, scratch, c):
    try:
        return run_case(model, scratch, *c)
    except Exception as e:
        import traceback
        return {"viol": [({"kind": "case_crashed"}, "case %r crashed: %r" % (c, e), {"kind": c[0], "index": c[1], "scenario_seed": c[2],
                                                                                   "error": traceback.format_exc()[-2000:]}, False)],
                "bump": [], "nontrivial": False, "key": c, "count": 0, "sample": None}
