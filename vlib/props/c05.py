"""C05 — replacing a file is atomic with respect to crashes and I/O errors (engine A).

Proof obligations: coq/Props_C05.v (every command program, EVERY fault oracle, every crash point).
Correspondence: the real fclones binary runs under the LD_PRELOAD shim (shim/fsshim.c) with
RAYON_NUM_THREADS=1; for every scenario tree x operation the fault-free libc trace is recorded (m counted
calls), then the run is replayed with a failure injected at every k <= m (EIO, ENOSPC, EXDEV, EPERM,
EOPNOTSUPP), with the process killed just before / just after every k, and with pairs (k, k') of
failures (operation and its roll-back).  Each run is compared with the extracted model under the SAME
oracle: (i) the libc trace abstracted to the model's primitive calls == the model's call sequence (with
results), (ii) the final tree inventory (kind, link target, bytes, mtime class, hard-link partition) == the
model state (at the crash point for kills), (iii) `Processed N files`, the number of warnings and the exit
status == the model's accounting.  A model-free oracle evaluates the property itself on every final tree.
"""
import json
import os
import re
from concurrent.futures import ThreadPoolExecutor

from .. import core
from . import a_common as A

ERRNOS = ["EIO", "ENOSPC", "EXDEV", "EPERM", "EOPNOTSUPP"]


# ------------------------------------------------------------------------------------------------
def gen_scenario(rng, sid, base, inside_dir=False, small=False):
    ngroups = 1 + rng.below(2 if small else 3)
    dirs = ["a", "b", "c/d"]
    groups = []
    used = set()
    for g in range(ngroups):
        n = 2 + rng.below(2 if small else 3)
        content = bytes([97 + rng.below(26) for _ in range(3 + rng.below(30))]) + bytes([48 + g])
        # link sets: at least two distinct inodes
        ninodes = 2 + rng.below(n - 1)
        ls = list(range(ninodes)) + [rng.below(ninodes) for _ in range(n - ninodes)]
        ls = rng.shuffle(ls)
        members = []
        for j in range(n):
            while True:
                rel = "%s/f%d%s" % (rng.choice(dirs), rng.below(30), rng.choice(["", ".txt", ".x.y"]))
                if rel not in used:
                    used.add(rel)
                    break
            members.append((rel, ls[j]))
        groups.append({"content": content, "members": members})
    return A.Scenario(sid, base, groups, move_dir="w/zz_out" if inside_dir else "out")


def gen_long_scenario(rng, sid, base, inside_dir=False):
    """victims whose base name is 230..255 bytes long (temp_file() appends 25 bytes; since fix d75e85d a name longer than 230
    bytes is shortened first, before that the temporary name exceeded NAME_MAX and rename/open failed with ENAMETOOLONG), each
    with pre-existing UNRELATED siblings <N>. and <N>.t where such a name can exist: nothing may ever happen to those, and the
    victims must stay intact when the command fails."""
    content = bytes([97 + rng.below(26) for _ in range(5 + rng.below(20))]) + b"L"
    lens = [254, 255, 231 + rng.below(23), 230]
    dirs = ["b", "b", "c", "c"]
    members = [("a/keep", 0)]
    extra = []
    for i, (n, d) in enumerate(zip(lens, dirs)):
        name = chr(103 + i) + "".join(chr(97 + rng.below(26)) for _ in range(n - 1))
        members.append(("%s/%s" % (d, name), i + 1))
        if n + 1 <= 255:
            extra.append(("file", "w/%s/%s." % (d, name), b"unrelated-dot-%d" % i))
        if n + 2 <= 255:
            extra.append(("file", "w/%s/%s.t" % (d, name), b"unrelated-t-%d-x" % i))
    scn = A.Scenario(sid, base, [{"content": content, "members": members}], extra=extra, move_dir="w/zz_out" if inside_dir else "out")
    scn.long_names = True
    return scn


def temp_name_correspondence(ctx):
    """FsCommand::temp_file against coq/TempNameModel.v: generated file names (lengths 1..255; ASCII, 2/3/4-byte UTF-8 sequences
    straddling byte 230, runs of continuation bytes, invalid bytes) go through the real function (harness fsx tf) and through
    temp_stem evaluated by coqc (vm_compute) on the same names; plus the model-free facts: same directory, suffix = '.' + 24
    alphanumerics, total length <= 255."""
    import subprocess
    core.build_harness(["fsx"])
    fsx = os.path.join(core.BIN, "fsx")
    rng = ctx.rng.fork()
    names = []
    units = [b"a", b"Z", b"\xc3\xa9", b"\xe2\x82\xac", b"\xf0\x9f\x98\x80", b"\x80", b"\xbf", b"\xff", b" ", b"."]
    for n in list(range(225, 256)) + [1, 2, 24, 25, 100, 229, 230, 231]:
        for fill in (b"a", b"\xc3\xa9", b"\xe2\x82\xac", b"\xf0\x9f\x98\x80", b"\x80"):
            for off in (0, 1, 2, 3):
                b = (b"x" * off + fill * 300)[:n]
                if b and b not in (b".", b"..") and b"/" not in b:
                    names.append(b)
    for _ in range(ctx.pick(300, 3000)):
        n = rng.choice([rng.below(255) + 1, 226 + rng.below(30)])
        b = b""
        while len(b) < n:
            b += rng.choice(units)
        b = b[:n]
        if b not in (b".", b"..") and b"\x00" not in b:
            names.append(b)
    names = sorted(set(names))
    impl = core.run_lines_parallel(fsx, ["/d/" + A.pct(nm) for nm in names], args=["tf"])
    stems = []
    for nm, line in zip(names, impl):
        ctx.count()
        f = line.split(" ")
        stem = re.sub(rb"%([0-9A-Fa-f]{2})", lambda m_: bytes([int(m_.group(1), 16)]), f[2].encode()) if len(f) > 2 and f[2] else b""
        stems.append(stem)
        ctx.distinct(("tf", nm), len(nm) > 230)
        ctx.bump("temp_name_victim_name_length", "231-255" if len(nm) > 230 else ("226-230" if len(nm) > 225 else "<=225"))
        bad = []
        if f[0] != "1":
            bad.append("the temporary name is not in the victim's directory")
        if f[1] != "1":
            bad.append("the suffix is not '.' + 24 alphanumerics")
        if len(stem) + 25 > 255:
            bad.append("the temporary name is %d bytes long (NAME_MAX 255)" % (len(stem) + 25))
        if not nm.startswith(stem):
            bad.append("the stem is not a prefix of the victim's name")
        if bad:
            ctx.violation({"kind": "temp_name_unusable"}, "FsCommand::temp_file(%r): %s" % (nm, "; ".join(bad)),
                          {"layer": "temp_file", "name_hex": nm.hex(), "stem_hex": stem.hex()}, found_input=True)
    # the model on the same names: one coqc run, the result is the list of the indices that differ
    d = os.path.join(ctx.scratch, "tempname")
    os.makedirs(d, exist_ok=True)
    fmt = lambda b: "[" + "; ".join(str(x) for x in b) + "]"
    with open(os.path.join(d, "TempCases.v"), "w") as fh:
        fh.write("From FV Require Import Base TempNameModel.\nOpen Scope N_scope.\n")
        fh.write("Definition eqb (a b : list N) : bool := if list_eq_dec N.eq_dec a b then true else false.\n")
        fh.write("Definition cases : list (list N * list N) := [\n" + ";\n".join("(%s, %s)" % (fmt(n_), fmt(s_)) for n_, s_ in zip(names, stems)) + "].\n")
        fh.write("Definition differing := map fst (filter (fun p => negb (eqb (temp_stem (fst (snd p))) (snd (snd p)))) (combine (seq 0 (length cases)) cases)).\n")
        fh.write("Eval vm_compute in (length cases, differing).\n")
    p = subprocess.run(["timeout", "300", "coqc", "-noglob", "-Q", core.COQ, "FV", "TempCases.v"], cwd=d, stdout=subprocess.PIPE, stderr=subprocess.PIPE)
    out = p.stdout.decode()
    m = re.search(r"=\s*\((\d+)%nat,\s*(\[[^\]]*\])", out.replace("\n", " "))
    if p.returncode != 0 or not m or int(m.group(1)) != len(names):
        ctx.violation({"kind": "model_driver_failed"}, "coqc on the temp-name cases failed: %s" % (p.stderr.decode()[-400:] + out[-200:]),
                      {"layer": "temp_file"}, found_input=False)
        return
    diff = [int(x.replace("%nat", "")) for x in m.group(2).strip("[]").split(";") if x.strip()]
    ctx.extra["temp_name_cases_through_the_model"] = len(names)
    if diff:
        i = diff[0]
        ctx.violation({"kind": "temp_name_differs_from_model"},
                      "FsCommand::temp_file keeps %d bytes of the %d-byte name %r, TempNameModel.temp_stem differs (%d such names)" % (
                          len(stems[i]), len(names[i]), names[i][:40], len(diff)),
                      {"layer": "temp_file", "name_hex": names[i].hex(), "stem_hex": stems[i].hex(), "correspondence": "TempNameModel.temp_stem vs FsCommand::temp_file"},
                      found_input=(len(stems[i]) + 25 > 255 or not names[i].startswith(stems[i])))


def victims_of(cmds):
    return {c["a"] for c in cmds}


# ------------------------------------------------------------------------------------------------
class Case:
    __slots__ = ("scn", "op", "spec", "inv0", "inv1", "cmds", "res", "calls", "kill", "line", "queries", "nfaults",
                 "sim", "sl", "variant", "seed", "extra")


def scn_cmds(scn, op, groups, inv0):
    return A.derive_cmds(op, groups, inv0, scn.dir_arg(), use_rename=0 if getattr(scn, "fake_mount", False) else 1)


def run_case(env, scn, op, spec, inv0, cmds, sim=False, no_lock=False):
    """spec: dict(fail=(k,E)|None, fail2=(k,E)|None, kill=(k,'before'|'after')|None)"""
    scn.build()
    inv0 = A.inventory(scn.base)          # inode numbers differ between rebuilds: take the inventory of THIS build
    r = A.run_shim(env["fclones"], env["shim"], A.cli_args(op, scn, no_lock), scn.report, scn.base,
                   fail=spec.get("fail"), fail2=spec.get("fail2"), kill=spec.get("kill"), sim_ficlone=sim,
                   cwd=getattr(scn, "cwd", None), env_extra=scn.env_extra(), plant=spec.get("plant"))
    c = Case()
    c.scn, c.op, c.spec, c.inv0, c.cmds, c.res, c.sim, c.sl = scn, op, spec, inv0, cmds, r, sim, not no_lock
    c.inv1 = A.inventory(scn.base)
    # model-free: the number of failures the shim really injected (lines marked F in the raw trace)
    c.nfaults = sum(1 for f in r["trace"] if len(f) > 4 and f[4] == "F")
    c.extra = {}
    vs = victims_of(cmds)
    qs = set(inv0) | {A.canon_temp(p, vs) for p in c.inv1}
    for cm in cmds:
        if "tmp" in cm:
            qs.add(cm["tmp"])
        if "tgt" in cm:
            qs.add(os.path.normpath(cm["tgt"]))
    c.queries = sorted(qs)
    try:
        c.calls, c.kill = A.abstract_trace(r["trace"], vs)
        oracle = A.oracle_from_calls(c.calls)
        crash = None
        if c.kill:
            crash = "%d:%s" % (c.kill["idx"], c.kill["stage"])
            if c.kill.get("env_fail"):
                oracle[c.kill["idx"]] = (c.kill["env_fail"], None)
        c.line = A.model_line(c.sl, inv0, cmds, oracle, crash, c.queries)
    except Exception as e:      # the trace does not even parse into the model's calls: still a case for the property oracle
        c.calls, c.kill = [], None
        c.extra["abstraction_error"] = repr(e)
        c.line = A.model_line(c.sl, inv0, cmds, {}, None, c.queries)
    return c


def fix_kill_env(calls_kill, trace):
    return calls_kill


def bytes_follow(inv, p, depth=0):
    e = inv.get(p)
    if e is None or depth > 40:
        return None
    if e[0] == "F":
        return e[3]
    if e[0] == "L":
        t = e[1] if e[1].startswith("/") else os.path.normpath(os.path.join(os.path.dirname(p), e[1]))
        return bytes_follow(inv, os.path.normpath(t), depth + 1)
    return None


def std_copy_assertion(c):
    """Rust std's kernel_copy asserts that sendfile/splice/copy_file_range report "not supported" errnos (EPERM, ENOSYS,
    EINVAL, ...) only BEFORE any byte was written; injecting such an errno after partial progress makes std itself panic.
    The kernel never does that, so such a fault sequence is outside the fault model (not a property violation of fclones)."""
    return c.res["exit"] == 101 and "kernel_copy" in c.res["stderr"] and "assertion" in c.res["stderr"]


def property_oracle(c):
    """model-free evaluation of C05 on the final tree of one run; returns [(kind, text)]"""
    bad = []
    if std_copy_assertion(c):
        return bad
    vs = victims_of(c.cmds)
    inv1 = {A.canon_temp(p, vs): e for p, e in c.inv1.items()}
    killed = c.spec.get("kill") is not None
    summ = A.log_summary(c.res["stderr"])
    done_n = 0
    undetectable = False
    targets = set()
    for cm in c.cmds:
        if "t" in cm:
            targets.add(cm["t"])
    for t in targets:
        if inv1.get(t) != c.inv0.get(t):
            bad.append(("retained_touched", "retained file %s changed: %r -> %r" % (t, c.inv0.get(t), inv1.get(t))))
    # nothing outside the commands' victims may ever change (crash or not): unreported siblings, retained files, links
    for p, e in c.inv0.items():
        if e[0] in ("F", "L") and p not in vs and p not in targets and c.inv1.get(p) != e:
            bad.append(("unrelated_file_touched", "%s is not processed by any command and changed: %r -> %r"
                        % (p if len(p) < 200 else "..." + p[-120:], e[:3], (c.inv1.get(p) or ("gone",))[:3])))
    for cm in c.cmds:
        a = cm["a"]
        e0 = c.inv0[a]
        b0 = e0[3]
        at_path = bytes_follow(inv1, a) == b0
        tmp = inv1.get(a + A.TMP_SFX)
        at_temp = tmp is not None and tmp[0] == "F" and tmp[3] == b0
        if cm["op"] == "rm":
            done = a not in inv1
        elif cm["op"] == "mv":
            done = bytes_follow(inv1, os.path.normpath(cm["tgt"])) == b0 and a not in inv1
            if bytes_follow(inv1, os.path.normpath(cm["tgt"])) == b0:
                at_path = True          # a complete copy of identical bytes exists
        elif cm["op"] == "sl":
            done = inv1.get(a, ("-",))[0] == "L" and at_path
        elif cm["op"] == "hl":
            done = inv1.get(a, ("-",))[0] == "F" and inv1[a][1] == c.inv0[cm["t"]][1]
        else:
            done = False
            undetectable = True
        if not (at_path or at_temp or done):
            bad.append(("bytes_lost", "%s: original bytes neither at the path, nor at a temp sibling, nor replaced by equal bytes "
                        "(now %r)" % (a, inv1.get(a))))
        if done:
            done_n += 1
        elif not killed and c.nfaults <= 1 and cm["op"] != "rl" and inv1.get(a) != e0:
            bad.append(("not_restored", "%s: a single call failed and the file is neither replaced nor restored: %r -> %r"
                        % (a, e0, inv1.get(a))))
    if not killed:
        if c.res["exit"] != 0:
            bad.append(("exit_status", "exit status %d" % c.res["exit"]))
        if summ["processed"] is None:
            bad.append(("no_summary", "no `Processed N files` line"))
        elif not undetectable and c.nfaults <= 1 and summ["processed"] != done_n:
            bad.append(("miscounted", "Processed %d files, but %d victims were actually replaced" % (summ["processed"], done_n)))
        if c.nfaults >= 1 and done_n < len(c.cmds) and not undetectable and summ["warn"] == 0:
            bad.append(("silent_failure", "a call failed, a file was not processed, and no warning was logged"))
    return bad


def describe(c):
    return {"scenario": c.scn.describe(), "op": c.op, "fault": c.spec, "simulated_ficlone": c.sim,
            "cli": [c.res and "fclones"] + A.cli_args(c.op, c.scn), "report": c.scn.report,
            "env": dict({"RAYON_NUM_THREADS": "1", "LD_PRELOAD": ".cache/fsshim.so", "FSSHIM_SCOPE": c.scn.base}, **c.scn.env_extra()),
            "libc_trace": ["\t".join(f) for f in c.res["trace"]][-60:], "stderr": c.res["stderr"][-1500:], "stderr_head": c.res["stderr"][:2500],
            "model_input": c.line}


def explore(env, make_scn, op, tier_quick, rng, errnos, shard, nshards, light=False):
    """the runs of one scenario x op whose fault index k is congruent to shard (each shard works on its own
    copy of the scenario, so shards run in parallel); returns list of Case"""
    scn = make_scn("_%d" % shard)
    os.makedirs(scn.base, exist_ok=True)
    groups = scn.make_report(env["fclones"])
    scn.build()
    inv0 = A.inventory(scn.base)
    cmds = scn_cmds(scn, op, groups, inv0)
    out = []
    sims = [False, True] if op == "dedupe" else [False]
    for sim in sims:
        c0 = run_case(env, scn, op, {}, inv0, cmds, sim=sim)
        if shard == 0:
            out.append(c0)
        m = max([int(f[0]) for f in c0.res["trace"]] or [0])
        in_copy = {k for x in c0.calls if x["kind"] == "copy" for k in x["ks"]}
        for k in range(1, m + 1):
            if k % nshards != shard:
                continue
            if light:
                out.append(run_case(env, scn, op, {"fail": (k, errnos[k % 5])}, inv0, cmds, sim=sim))
                out.append(run_case(env, scn, op, {"kill": (k, "after")}, inv0, cmds, sim=sim))
                continue
            if k in in_copy:
                es = errnos          # open of the target, fchmod, copy_file_range...: every errno, also in the quick tier
            elif tier_quick:
                # two of the five errnos per position; EOPNOTSUPP (swallowed by maybe_lock, fallback inside fs::copy)
                # on every other position
                es = [errnos[k % 4], "EOPNOTSUPP"] if (k // nshards) % 2 == 0 else [errnos[(k + 1) % 4], errnos[(k + 3) % 4]]
            else:
                es = errnos
            for e in es:
                out.append(run_case(env, scn, op, {"fail": (k, e)}, inv0, cmds, sim=sim))
            for when in ("before", "after"):
                out.append(run_case(env, scn, op, {"kill": (k, when)}, inv0, cmds, sim=sim))
            # pairs: the operation fails and a call shortly after it (the roll-back / clean-up / fallback) fails too
            span = 1 if tier_quick else 3
            for d in range(1, span + 1):
                out.append(run_case(env, scn, op, {"fail": (k, rng.choice(errnos)), "fail2": (k + d, rng.choice(errnos))},
                                    inv0, cmds, sim=sim))
    if op in ("link", "softlink") and not light and shard == 0:
        # ANOTHER PROCESS re-creates the victim's path between rename(path, tmp) and the link / symlink call (played by the shim):
        # the call fails with EEXIST and the roll-back must put the original back at its path (oracle only: a foreign writer is
        # outside the model)
        c0 = run_case(env, scn, op, {}, inv0, cmds)
        for x in c0.calls:
            if x["kind"] in ("link", "symlink", "hardlink", "softlink") and x["ks"]:
                for cm in cmds:
                    if A.pct(cm["a"]) in x["text"].split(",")[-1]:
                        out.append(run_case(env, scn, op, {"plant": (x["ks"][0], cm["a"])}, inv0, cmds))
                        break
    if op == "move" and not light:
        # the copy branch: every rename forced to fail with EXDEV (as across file systems), then a second failure /
        # a kill at every call of the fallback (mkdir check, open+truncate, fchmod, copy_file_range x2, unlink)
        c0 = run_case(env, scn, op, {}, inv0, cmds)
        renames = [x["ks"][0] for x in c0.calls if x["kind"] == "rename"]
        for n, kr in enumerate(renames):
            if n % nshards != shard:
                continue
            base = {"fail": (kr, "EXDEV")}
            cb = run_case(env, scn, op, base, inv0, cmds)
            out.append(cb)
            # calls of the fallback = everything after kr up to the next command's open-for-lock
            ks = []
            for x in cb.calls:
                if x["ks"][0] > kr:
                    if x["kind"] == "open" and ks:
                        break
                    ks += x["ks"]
            copy_ks = {k for x in cb.calls if x["kind"] == "copy" for k in x["ks"]}
            for k2 in ks:
                es = errnos if (k2 in copy_ks or not tier_quick) else [errnos[k2 % 5], errnos[(k2 + 2) % 5]]
                for e in es:
                    out.append(run_case(env, scn, op, dict(base, fail2=(k2, e)), inv0, cmds))
                for when in ("before", "after"):
                    out.append(run_case(env, scn, op, dict(base, kill=(k2, when)), inv0, cmds))
    return out


def run(ctx):
    ctx.rule = ("scenario = 1-3 groups of 2-4 identical files in 3 directories with random hard-link sets (>= 2 inodes per group); "
                "for each scenario x operation {remove, link, link --soft, dedupe, move DIR (outside / inside the tree)} the "
                "fault-free libc trace of the real binary is recorded under the shim, then replayed with a failure at every "
                "counted call k (5 errnos), a kill before / after every k, and pairs (k, k+d); dedupe additionally with the shim "
                "simulating FICLONE success (labelled). A case = one run; non-trivial = a fault was injected or the process was "
                "killed; distinct = distinct (scenario, op, fault spec)")
    ctx.assumptions = [
        "a failing rename/link/symlink/unlink/mkdir/FICLONE leaves the file system unchanged (POSIX atomicity; kernel, not checked); "
        "a failing std::fs::copy may leave a partial target and never writes the source",
        "temp_file() names do not collide with existing names (24 random alphanumerics)",
        "no symbolic links in the directory part of the paths involved; symlink targets are absolute",
        "durability after power loss (no fsync modelling) is NOT claimed; crash = SIGKILL of the process",
        "this sandbox's file system rejects FICLONE (EOPNOTSUPP): for real, only the failure paths of linux_reflink execute; the "
        "success path is exercised with the shim SIMULATING the clone by a copy (cases labelled simulated_ficlone)",
    ]
    ctx.trusted.append("C05/C18/C20: shim/fsshim.c (interposition of the libc entry points used by Rust std; cross-checked against "
                       "strace in notes/A.md), the trace abstraction in vlib/props/a_common.py (libc calls -> primitive calls of "
                       "FsModel.v; std::fs::copy = one primitive whose observed outcome is fed to the model), RAYON_NUM_THREADS=1")
    ctx.use_coq()
    model = core.build_model("A")
    env = {"fclones": core.build_fclones(), "shim": core.build_shim()}
    errnos = ERRNOS

    if ctx.replay:
        rp = json.load(open(ctx.replay))
        d = rp["scenario"]
        scn = A.Scenario("replay", ctx.scratch, [{"content": b"x" * g["content_len"] + bytes([48 + i]), "members": [tuple(m) for m in g["members"]]}
                                                 for i, g in enumerate(d["groups"])], move_dir=d["move_dir"],
                         extra=[tuple(x.encode("latin1") if (j == 2 and e[0] == "file") else x for j, x in enumerate(e)) for e in d.get("extra", [])])
        os.makedirs(scn.base, exist_ok=True)
        groups = scn.make_report(env["fclones"])
        scn.build()
        inv0 = A.inventory(scn.base)
        scn.fake_mount = d.get("fake_mount", False)
        cmds = scn_cmds(scn, rp["op"], groups, inv0)
        spec = {k: (tuple(v) if isinstance(v, list) else v) for k, v in rp["fault"].items()}
        cases = [run_case(env, scn, rp["op"], spec, inv0, cmds, sim=rp.get("simulated_ficlone", False))]
    else:
        nscn = ctx.pick(2, 8)
        nshards = 4
        jobs = []
        for i in range(nscn):
            seed = ctx.rng.next()
            for op in A.OPS + ["move_copy"]:
                inside = (op == "move" and i % 2 == 1)
                real_op = "move" if op == "move_copy" else op

                def make_scn(suffix, seed=seed, i=i, op=op, inside=inside):
                    # every (op, shard) gets its own copy of the scenario (own directory): jobs run in parallel
                    scn = gen_scenario(core.SplitMix64(seed), "s%d_%s%s" % (i, op, suffix), ctx.scratch, inside_dir=inside,
                                       small=ctx.quick)
                    # move_copy: DIR registered as another mount point (hook FCLONES_VERIF_MOUNTS) => use_rename = false
                    scn.fake_mount = (op == "move_copy")
                    return scn
                for sh in range(nshards):
                    jobs.append((make_scn, real_op, ctx.rng.fork(), sh, False))
        # victims with 230..255-byte names and unrelated siblings <N>. / <N>.t : every op, a lighter fault sweep
        seed = ctx.rng.next()
        for op in A.OPS + ["move_copy"]:
            real_op = "move" if op == "move_copy" else op

            def make_long(suffix, seed=seed, op=op):
                scn = gen_long_scenario(core.SplitMix64(seed), "long_%s%s" % (op, suffix), ctx.scratch)
                scn.fake_mount = (op == "move_copy")
                return scn
            for sh in range(nshards):
                jobs.append((make_long, real_op, ctx.rng.fork(), sh, True))
        # `move` whose target path is already OCCUPIED by an unrelated file (every victim of the first group): the command
        # must fail and leave both the victim and the occupant alone, under every fault as well
        seed = ctx.rng.next()
        for op in ["move", "move_copy"]:
            def make_occ(suffix, seed=seed, op=op):
                scn = gen_scenario(core.SplitMix64(seed), "occ_%s%s" % (op, suffix), ctx.scratch, small=True)
                rels = sorted(rel for rel, _ in scn.groups[0]["members"])
                for k, rel in enumerate(rels[1:]):
                    # the occupant is an unrelated file; every other one has exactly the LENGTH of the victim (other bytes): it is
                    # not "the copy of an interrupted move"
                    occ = b"#" * len(scn.groups[0]["content"]) if k % 2 == 0 else b"occupant-of-" + rel.encode()
                    scn.extra.append(("file", os.path.join(scn.move_dir, os.path.join(scn.root, rel).lstrip("/")), occ))
                scn.fake_mount = (op == "move_copy")
                scn.occupied = True
                return scn
            for sh in range(nshards):
                jobs.append((make_occ, "move", ctx.rng.fork(), sh, True))
        with ThreadPoolExecutor(max_workers=core.NCPU) as ex:
            res = list(ex.map(lambda j: explore(env, j[0], j[1], ctx.quick, j[2], errnos, j[3], nshards, light=j[4]), jobs))
        cases = [c for r in res for c in r]

    if not ctx.replay:
        temp_name_correspondence(ctx)
    outs = core.run_lines_parallel(model, [c.line for c in cases])
    corr = []
    for c, o in zip(cases, outs):
        ctx.count()
        spec = c.spec
        kind = "none" if not spec else ("intruder" if "plant" in spec else "kill_" + spec["kill"][1] if "kill" in spec else ("pair" if "fail2" in spec else spec["fail"][1]))
        if spec and "kill" in spec and "fail" in spec:
            kind = "rename_EXDEV+" + kind
        elif spec and "fail2" in spec and spec["fail"][1] == "EXDEV" and c.op == "move" and any(x["kind"] == "copy" for x in c.calls):
            kind = "rename_EXDEV+" + spec["fail2"][1]
        ctx.distinct((c.scn.sid, c.op, repr(spec), c.sim), bool(spec))
        ctx.bump("operation", c.op + ("+simulated_ficlone" if c.sim else "") + ("_by_copy(other_mount)" if getattr(c.scn, "fake_mount", False) else ""))
        ctx.bump("fault", kind)
        ctx.bump("groups", len(c.scn.groups))
        if getattr(c.scn, "occupied", False):
            ctx.bump("move_target_occupied_by_an_unrelated_file", "move" + ("_by_copy" if getattr(c.scn, "fake_mount", False) else ""))
        if getattr(c.scn, "long_names", False):
            ctx.bump("victim_name_length_230_255_with_unrelated_siblings", c.op + ("_by_copy" if getattr(c.scn, "fake_mount", False) else ""))
            if any(x.get("env_fail") and x["res"] == "EOTHER" for x in c.calls):
                ctx.bump("ENAMETOOLONG_on_the_temp_name(environment_fault)", c.op)
        ctx.bump("commands_in_script", len(c.cmds))
        hit = None
        if spec and "plant" in spec:
            ctx.bump("foreign_process_recreates_the_victim_path_before_the_link", c.op)
            for kind_, text in property_oracle(c):
                ctx.violation({"kind": kind_, "op": c.op}, "C05 violated by the implementation: " + text, describe(c), found_input=True)
            continue
        if spec:
            k = (spec.get("kill") or spec.get("fail2") or spec.get("fail"))[0]
            for x in c.calls:
                if k in x["ks"]:
                    hit = x["kind"]
            if hit is None and c.kill:
                hit = "killed:" + c.kill["stage"][0]
            ctx.bump("primitive_hit_by_fault", hit or "beyond_trace")
        if any(x["kind"] == "copy" for x in c.calls):
            ctx.bump("move_copy_branch_taken", "yes")
        if any(x.get("tolerated_inj") for x in c.calls):
            ctx.bump("fault_tolerated_inside_std_fs_copy", "yes")
        if std_copy_assertion(c):
            # outside the fault model (see std_copy_assertion): counted, not compared
            ctx.bump("fault_sequence_outside_model", "std kernel_copy assertion (unsupported-errno after partial progress)")
            continue
        for kind_, text in property_oracle(c):
            ctx.violation({"kind": kind_, "op": c.op}, "C05 violated by the implementation: " + text, describe(c), found_input=True)
        if c.extra.get("abstraction_error"):
            corr.append((c, "trace", "the libc trace could not be abstracted to the model's calls: " + c.extra["abstraction_error"]))
            continue
        try:
            mo = A.parse_model_out(o)
        except Exception as e:
            corr.append((c, "model", str(e)))
            continue
        killed = c.kill is not None
        d = A.compare_trace(c.calls, mo["trace"], killed)
        if d:
            corr.append((c, "trace", d))
            continue
        known_mt = {e[2] for e in c.inv0.values() if e[0] == "F"}
        ds = A.compare_state(c.inv1, c.queries, mo["state"], victims_of(c.cmds), known_mt)
        if ds:
            corr.append((c, "state", "; ".join(ds[:4])))
            continue
        if not killed:
            summ = A.log_summary(c.res["stderr"])
            if summ["processed"] != mo["processed"] or summ["warn"] != mo["warn"] or c.res["exit"] != 0:
                corr.append((c, "accounting", "implementation: processed=%s warnings=%d exit=%d; model: processed=%d warnings=%d"
                             % (summ["processed"], summ["warn"], c.res["exit"], mo["processed"], mo["warn"])))
                continue
        ctx.bump("model_result", ",".join(sorted(set(mo["results"]))) or "no_commands")
        if len(ctx.samples) < 6 and spec:
            ctx.sample({"op": c.op, "fault": spec, "abstract_trace": [x["text"] + "=" + x["res"] for x in c.calls][-8:],
                        "model_results": mo["results"], "processed": mo["processed"], "warnings": mo["warn"]})
    ctx.extra["exhaustive"] = False
    ctx.extra["runs_of_the_real_binary"] = len(cases)
    ctx.extra["simulated_ficlone_runs"] = sum(1 for c in cases if c.sim)
    if corr and os.environ.get("VERIF_DEBUG"):
        for c, what, d in corr[:int(os.environ["VERIF_DEBUG"])]:
            core.log("DISAGREE %s %s sim=%s %s: %s" % (c.op, c.spec, c.sim, what, d))
    if corr:
        c, what, d = corr[0]
        rp = describe(c)
        rp["correspondence"] = "%s comparison between the fclones binary under the shim and the extracted model (AtomicModel.v)" % what
        rp["disagreement"] = d
        rp["disagreeing_runs"] = len(corr)
        rp["model_output"] = outs[cases.index(c)][:3000]
        have_input = any(v[3] for v in ctx.violations)
        if not have_input:
            ctx.violation({"kind": what + "_mismatch", "op": c.op},
                          "model and implementation disagree (%s) on %d runs, first: %s %s: %s; the model-free oracle found no "
                          "violation of C05 on any explored run" % (what, len(corr), c.op, c.spec, d), rp, found_input=False)
        else:
            core.log("model/implementation disagreement on %d runs (first: %s)" % (len(corr), d))
