"""C11 — the dry-run script is exactly what a real run does (engine X, on top of engines D, T, A).

Proof obligations: coq/Props_C11.v over coq/ScriptModel.v (render = FsCommand::to_shell_str, bash words through
engine T's bash model, coreutils semantics, log_script's priority-queue printer, accounting).

Tie to the code (every run), per generated scenario (tree, recorded `group` options, report format, operation, options):
  1. `fclones <op> --dry-run` (stdout, or `-o FILE`): the tree must be untouched; the printed lines (temp suffix
     canonicalised) must equal, byte for byte and in order, the model's log_script(render(script)) for the same
     report + inventory; `Would process N files and reclaim X` must equal the model's count / bytes.
  2. the real run on the same tree: `Processed N files and reclaimed X` must equal the dry-run summary; the final
     tree must equal the model's (same comparison as C02).
  3. remove / link / link --soft: the tree is restored from a `cp -a` snapshot, the printed script is executed by
     real bash (env -i, HOME=/tildehome, cwd with glob bait) and the resulting inventory must equal the real run's
     up to inode renumbering; the model's sh_run of the same lines must give the same tree too.
Known finding reproduced on every run: N6 (a symlink victim whose target is a victim of the same run).
"""
import json
import os
import shutil
import subprocess
from concurrent.futures import ThreadPoolExecutor

from .. import core, treegen, dedupe_rt
from . import x_common as X
from . import c02 as C02


def d_many_groups(name, seed, base):
    """many small groups: the parallel script generation delivers them out of order, the printer must restore it"""
    rng = core.SplitMix64(seed)
    s = X.Scn(name, seed, base)
    s.roots = [os.path.join(s.treedir, b"r0"), os.path.join(s.treedir, b"r1")]
    n = 40 + rng.below(30)
    for i in range(n):
        data = treegen.content(seed + i, 1 + (i % 7) * 3 + rng.below(3))
        s.mk(b"r0/f%03d" % i, data)
        s.mk(b"r1/g%03d" % i, data)
        if rng.chance(1, 5):
            s.mk(b"r1/sub/h%03d" % i, data)
    s.stamp_mtimes(rng)
    s.fmt = rng.choice(["default", "json"])
    X.pick_opts(s, rng)
    s.use_sym, s.hostile = False, False
    return s


def d_n6(name, seed, base):
    """N6: with -S a symlink and its target are one replica; both are dropped; the command on the link probes the lock
    THROUGH the link after the target is gone"""
    rng = core.SplitMix64(seed)
    s = X.Scn(name, seed, base)
    data = treegen.content(seed, 40)
    s.roots = [os.path.join(s.treedir, b"r0")]
    s.mk(b"r0/a/keep", data)
    s.mk(b"r0/b/f", data)
    s.sym(os.path.join(s.treedir, b"r0/b/f") if rng.chance(1, 2) else b"f", b"r0/b/f.lnk")
    s.stamp_mtimes(rng)
    s.group_opts = ["--symbolic-links"]
    s.fmt = rng.choice(["default", "json"])
    X.pick_opts(s, core.SplitMix64(0), op=rng.choice(["remove", "move"]))
    s.op_opts, s.sem = [], {"n": None, "prio": [], "keep_name": [], "keep_path": [], "name": [], "path": [], "iso": [], "mlinks": False}
    s.no_lock = False
    s.fake_mount = False
    s.use_sym, s.hostile = True, False
    return s


def d_hostile(name, seed, base):
    """every shell-hostile name of the alphabet as a victim of remove / link / link --soft"""
    rng = core.SplitMix64(seed)
    s = X.Scn(name, seed, base)
    s.roots = [os.path.join(s.treedir, b"r0")]
    names = [n.encode("utf-8") for n in treegen.HOSTILE_NAMES] + list(treegen.HOSTILE_BYTES) + [b"a=~", b"~", b"x=~/y", b"-n", b"a\\'b", b"$'x'", b"*", b"?"]
    names = rng.shuffle(names)[:14]
    for i, n in enumerate(names):
        data = treegen.content(seed + i // 2, 5 + i // 2)
        s.mk(b"r0/k%d/%s" % (i, n), data)
        s.mk(b"r0/%s/z%d" % (n, i), data)
    s.stamp_mtimes(rng)
    s.fmt = rng.choice(["default", "json"])
    X.pick_opts(s, rng, op=rng.choice(["remove", "link", "softlink"]))
    s.use_sym, s.hostile = False, True
    return s


def d_dirlink(name, seed, base):
    """A symbolic link lies on the path of the RETAINED files when the dedupe command runs:
      moved      between `group` and the command, archive/ is moved to bigdisk/archive and a symlink is left in its place
                 (contents, sizes, mtimes unchanged: the report is still accepted);
      rewritten  alias -> archive exists from the start and the report's paths are rewritten to go through alias/.
    The printed script and the real run must still leave the same tree, INCLUDING the texts of the created symlinks.
    (FsModel has no symlinks in the directory part of a path: no model comparison for these cases, oracles only.)"""
    rng = core.SplitMix64(seed)
    s = X.Scn(name, seed, base)
    variant, op = {"a": ("moved", "softlink"), "b": ("rewritten", "softlink"), "c": ("moved", "link"), "d": ("rewritten", "remove"),
                   "e": ("moved", "move"), "f": ("rewritten", "dedupe"), "g": ("moved", "softlink"), "h": ("rewritten", "link")}[name.split("_")[1]]
    s.roots = [os.path.join(s.treedir, b"t")]
    dups = [b"inbox/IMG_0001 (copy).jpg", b"inbox/scan's.pdf", b"inbox/deep/x y.bin", b"inbox/\xfe\xfdz"]
    for i, orig in enumerate([b"archive/2023/photo 1.jpg", b"archive/2023/tax.pdf", b"archive/misc/n.bin"]):
        data = treegen.content(seed + i, 30 + 7 * i)
        s.mk(b"t/" + orig, data)
        s.mk(b"t/" + dups[i], data)
        if rng.chance(1, 2):
            s.mk(b"t/" + dups[3] + b"%d" % i, data)
    if variant == "rewritten":
        os.symlink(b"archive", os.path.join(s.treedir, b"t/alias"))
    s.stamp_mtimes(rng)
    s.fmt = rng.choice(["default", "json"])
    X.pick_opts(s, core.SplitMix64(0), op=op)
    keepdir = b"archive" if variant == "moved" else b"alias"
    s.op_opts = ["--keep-path", (os.path.join(s.treedir, b"t", keepdir) + b"/**").decode()]
    s.sem = {"n": None, "prio": [], "keep_name": [], "keep_path": [("under", os.path.join(s.treedir, b"t", keepdir))], "name": [], "path": [],
             "iso": [], "mlinks": False}
    s.no_lock = rng.chance(1, 3)
    s.fake_mount = False
    if op == "move":
        s.move_dir = os.path.join(s.base, b"moved")
    s.use_sym, s.hostile = False, True
    s.no_model = True
    tdir = os.path.join(s.treedir, b"t")

    def post_group():
        if variant == "moved":
            os.makedirs(os.path.join(tdir, b"bigdisk"))
            os.rename(os.path.join(tdir, b"archive"), os.path.join(tdir, b"bigdisk/archive"))
            os.symlink(b"bigdisk/archive", os.path.join(tdir, b"archive"))
            return None
        old, new = os.path.join(tdir, b"archive") + b"/", os.path.join(tdir, b"alias") + b"/"
        s.report = s.report.replace(old, new)
        for g in s.groups:
            g["files"] = [p.replace(old, new) if p.startswith(old) else p for p in g["files"]]
        return s.groups
    s.post_group = post_group
    s.notes.append("symlink on the retained files' path at link time (%s)" % variant)
    return s


def d_planted(name, seed, base):
    """unrelated files sit exactly at the temp names a FIRST dry run printed (`<victim>.<24 characters>`): a second dry-run
    script and the real run must both leave them alone (temp names must be fresh each time)"""
    rng = core.SplitMix64(seed)
    s = X.Scn(name, seed, base)
    s.roots = [os.path.join(s.treedir, b"r0")]
    for i in range(3 + rng.below(3)):
        data = treegen.content(seed + i, 10 + i)
        s.mk(b"r0/keep/k%d" % i, data)
        s.mk(b"r0/dup/v %d" % i, data)
        # decoys that merely LOOK like temp names
        s.mk(b"r0/dup/v %d.0123456789abcdef01234567" % i, treegen.content(seed + 100 + i, 9))
    s.stamp_mtimes(rng)
    s.fmt = rng.choice(["default", "json"])
    X.pick_opts(s, core.SplitMix64(0), op={"a": "link", "b": "softlink", "c": "link", "d": "softlink"}[name.split("_")[1]])
    s.op_opts, s.sem = [], {"n": None, "prio": [], "keep_name": [], "keep_path": [], "name": [], "path": [], "iso": [], "mlinks": False}
    s.no_lock = False
    s.use_sym, s.hostile = False, False

    def post_group():
        rc, dout, _ = s.run_op(dry_run=True)
        work = os.path.join(s.base + b"_work", b"plant")
        os.makedirs(work, exist_ok=True)
        lines = [l for l in dout.split(b"\n") if l]
        k = 0
        for w in bash_split(lines, work):
            if len(w) == 3 and w[0] == b"mv" and not os.path.lexists(w[2]) and w[2].startswith(s.treedir):
                with open(w[2], "wb") as f:
                    f.write(treegen.content(seed + 500 + k, 17))
                os.utime(w[2], ns=(X.T0 * 10**9, X.T0 * 10**9))
                k += 1
        s.notes.append("%d files planted at the temp names of a first dry run" % k)
        return None
    s.post_group = post_group
    return s


DIRECTED = [("planted_a", d_planted), ("planted_b", d_planted), ("planted_c", d_planted), ("planted_d", d_planted),
            ("matchlinks_a", C02.d_matchlinks), ("matchlinks_b", C02.d_matchlinks), ("matchlinks_c", C02.d_matchlinks),
            ("matchlinks_d", C02.d_matchlinks), ("dirlink_a", d_dirlink), ("dirlink_b", d_dirlink), ("dirlink_c", d_dirlink), ("dirlink_d", d_dirlink), ("dirlink_e", d_dirlink),
            ("dirlink_f", d_dirlink), ("dirlink_g", d_dirlink), ("dirlink_h", d_dirlink),
            ("many_groups_a", d_many_groups), ("many_groups_b", d_many_groups), ("n6_a", d_n6), ("n6_b", d_n6),
            ("hostile_a", d_hostile), ("hostile_b", d_hostile), ("hostile_c", d_hostile)]


def d_transform_lens(name, seed, base):
    """a report made with --transform (the size check is off for it): the members of a group have DIFFERENT on-disk lengths
    (equal after `head -c N`); the bytes the dry run promises to reclaim are the sum over the victims' own lengths"""
    rng = core.SplitMix64(seed)
    s = X.Scn(name, seed, base)
    s.roots = [os.path.join(s.treedir, b"r0")]
    keep = rng.choice([4, 8, 16])
    for gi in range(1 + rng.below(3)):
        head = treegen.content(seed + 31 * gi, keep)
        for k in range(3 + rng.below(3)):
            s.mk(b"r0/g%d/f%d" % (gi, k), head + treegen.content(seed + 100 * gi + k, 5 + 13 * k + rng.below(9)))
    s.stamp_mtimes(rng)
    s.group_opts = ["--transform", "head -c %d" % keep]
    s.fmt = rng.choice(["default", "json"])
    X.pick_opts(s, rng, op=rng.choice(["remove", "link", "softlink", "move"]))
    s.use_sym, s.hostile = False, False
    s.notes.append("transform report: members of different lengths")
    return s


def d_longnames(name, seed, base):
    """victims whose file name is 231..255 bytes long: <name>.<24 random characters> would exceed NAME_MAX; since fix d75e85d
    (former finding N8) the temporary name is built from a shortened stem, in the printed script as in the real run: both
    process every victim, `bash script` and the real run leave the same tree, the counts agree."""
    rng = core.SplitMix64(seed)
    s = X.Scn(name, seed, base)
    s.roots = [os.path.join(s.treedir, b"r0")]
    data = treegen.content(seed, 40)
    s.mk(b"r0/a/keep", data)
    for k, n in enumerate([231 + rng.below(20), 255, 230][:2 + rng.below(2)]):
        s.mk(b"r0/b/" + bytes([103 + k]) + bytes(97 + rng.below(26) for _ in range(n - 1)), data)
    other = treegen.content(seed + 1, 25)
    s.mk(b"r0/c/x1", other)
    s.mk(b"r0/c/x2", other)
    s.stamp_mtimes(rng)
    s.fmt = rng.choice(["default", "json"])
    X.pick_opts(s, core.SplitMix64(0), op=rng.choice(["link", "softlink"]))
    s.op_opts, s.sem = [], {"n": None, "prio": [], "keep_name": [], "keep_path": [], "name": [], "path": [], "iso": [], "mlinks": False}
    s.no_lock = False
    s.use_sym, s.hostile = False, False
    s.notes.append("victims with 231-255 byte names")
    return s


DIRECTED[:0] = [("longnames_a", d_longnames), ("longnames_b", d_longnames), ("longnames_c", d_longnames), ("transform_lens_a", d_transform_lens), ("transform_lens_b", d_transform_lens), ("transform_lens_c", d_transform_lens),
                ("transform_lens_d", d_transform_lens)]


def build(kind, name, seed, base):
    for k, f in DIRECTED:
        if k == kind:
            return f(name, seed, base)
    return C02.build(kind, name, seed, base)


def human(n):
    """bytesize::to_string(n, false) as FileLen's Display prints it"""
    if n < 1000:
        return "%d B" % n
    import math
    exp = int(math.log(n) / math.log(1000))
    exp = max(1, min(exp, 6))
    return "%.1f %sB" % (n / 1000.0 ** exp, "KMGTPE"[exp - 1])


def bash_split(lines, cwd):
    """the words real bash makes of every printed line (one bash process; NUL separated, argc first)"""
    if not lines:
        return []
    sf = os.path.join(cwd, b"split.sh")
    with open(sf, "wb") as f:
        f.write(b"f() { printf '%s\\0' \"$#\" \"$@\"; }\n")
        for l in lines:
            f.write(b"f " + l + b"\n")
    p = subprocess.run(["env", "-i", "PATH=/usr/bin:/bin", "HOME=/tildehome", "bash", "--norc", "--noprofile", sf], cwd=cwd,
                       stdout=subprocess.PIPE, stderr=subprocess.PIPE, timeout=120)
    toks = p.stdout.split(b"\0")
    out, i = [], 0
    while i < len(toks) - 1:
        n = int(toks[i])
        out.append(toks[i + 1:i + 1 + n])
        i += 1 + n
    return out


def script_ops(words):
    """printed script -> [(kind, victim path)] in order; kind in rm / ln / ln-s / cp / mv (a temp-file mv / rm pair around a link
    command is folded into the link command)"""
    ops = []
    i = 0
    while i < len(words):
        w = words[i]
        if len(w) == 3 and w[0] == b"mv" and i + 2 < len(words) and words[i + 1][0] in (b"ln", b"cp") and words[i + 2][0] == b"rm" \
                and words[i + 2][1] == w[2]:
            mid = words[i + 1]
            kind = "ln-s" if mid[:2] == [b"ln", b"-s"] else ("cp-reflink" if mid[0] == b"cp" else "ln")
            ops.append((kind, w[1], mid[-2]))
            i += 3
        elif w[0] == b"rm" and len(w) == 2:
            ops.append(("rm", w[1], None))
            i += 1
        elif w[0] == b"mv" and len(w) == 3:
            ops.append(("mv", w[1], w[2]))
            i += 1
        elif w[0] == b"cp" and len(w) == 3 and i + 1 < len(words) and words[i + 1] == [b"rm", w[1]]:
            ops.append(("cp+rm", w[1], w[2]))
            i += 2
        else:
            ops.append(("?", b" ".join(w), None))
            i += 1
    return ops


def run_bash(script_lines, cwd):
    sf = os.path.join(cwd, b"script.sh")
    with open(sf, "wb") as f:
        f.write(b"\n".join(script_lines) + b"\n")
    for bait in (b"a", b"aa", b"b"):
        open(os.path.join(cwd, bait), "wb").close()
    p = subprocess.run(["env", "-i", "PATH=/usr/bin:/bin", "HOME=/tildehome", "bash", "--norc", "--noprofile", sf], cwd=cwd,
                       stdout=subprocess.PIPE, stderr=subprocess.PIPE, timeout=120)
    return p.returncode, p.stderr


def run_case(model, scratch, kind, idx, seed):
    name = "%s_%d" % (kind, idx)
    base = os.path.join(scratch, name).encode()
    os.makedirs(base, exist_ok=True)
    out = {"viol": [], "bump": [], "nontrivial": False, "key": (kind, seed), "count": 0, "sample": None}
    s = build(kind, name, seed, base)
    payload = dict(s.describe(), kind=kind, index=idx,
                   replay_how="./check C11 --replay <this file> rebuilds the tree from (kind, scenario_seed) and re-runs it")

    def viol(sig, what, extra=None, found=True):
        out["viol"].append((sig, what, dict(payload, **(extra or {})), found))
    try:
        groups = s.make_report()
    except RuntimeError as e:
        viol({"kind": "group_failed"}, str(e), found=False)
        return out
    if getattr(s, "post_group", None):
        groups = s.post_group() or groups        # the tree (or the report) changes between `group` and the dedupe command
    if getattr(s, "no_model", False):
        model = None
    payload["report"] = s.report.decode("utf-8", "replace")[:3000]
    inv0 = X.inventory(s.treedir)
    sym_in_report = any(inv0.get(p, ("?",))[0] == "l" for g in groups for p in g["files"])
    rel_links_in_report = any(inv0.get(p, ("?",))[0] == "l" and not inv0[p][3].startswith(b"/") for g in groups for p in g["files"])
    if sym_in_report:
        s.threads = 1
    tree_aux = X.model_tree(s, X.inventory(s.base))
    # ---- 1. dry run
    use_o = (seed >> 3) % 3 == 0
    ofile = os.path.join(s.base, b"dry_out.txt")
    stale_o = use_o and (seed >> 5) % 2 == 0
    if stale_o:
        # FILE is left over from an earlier, LONGER dry run (another operation / a bigger report): nothing of it may survive
        with open(ofile, "wb") as f:
            f.write(b"".join(b"rm " + os.path.join(s.treedir, b"stale-%d") % k + b"\n" for k in range(400)))
    rc, dout, derr = s.run_op(dry_run=True, extra=(["-o", ofile] if use_o else []))
    out["count"] += 1
    if rc != 0:
        viol({"kind": "dry_run_failed"}, "dry run exited %d: %s" % (rc, derr[-300:].decode("utf-8", "replace")))
        return out
    if use_o:
        dout = open(ofile, "rb").read() if os.path.exists(ofile) else b""
        if os.path.exists(ofile):
            os.remove(ofile)
    inv0b = X.inventory(s.treedir)
    if inv0b != inv0 or (s.op == "move" and os.path.lexists(s.move_dir) and not s.move_dir.startswith(s.treedir)):
        changed = sorted(p for p in set(inv0) | set(inv0b) if inv0.get(p) != inv0b.get(p))
        viol({"kind": "dry_run_modified_tree"}, "--dry-run%s changed the tree: %r" % (" -o FILE" if use_o else "", changed[:5]),
             {"dry_run_output_to_file": use_o})
        return out
    script = X.canon_script(dout)
    dsum = X.summary(derr)
    payload["cli"] = [a.decode("utf-8", "replace") if isinstance(a, bytes) else a for a in s.cli(True)]
    payload["dry_run_output"] = dout.decode("utf-8", "replace")[:3000]
    ncmd_lines = len(script)
    out["nontrivial"] = ncmd_lines > 0
    out["bump"] += [("op", s.op), ("format", s.fmt), ("group_opts", " ".join(s.group_opts) or "default"),
                    ("names", "hostile" if getattr(s, "hostile", False) else "plain"), ("dry_run_to", ("file(longer stale content)" if stale_o else "file") if use_o else "stdout"),
                    ("script_lines", min(ncmd_lines, 30) // 3 * 3), ("groups", min(len(groups), 40) // 4 * 4),
                    ("symlinks_reported", int(sym_in_report)), ("lock", "no-lock" if s.no_lock else "lock"),
                    ("priority", ",".join(s.sem["prio"]) or "-"), ("kind", kind if kind.startswith("random") else kind.rsplit("_", 1)[0])]
    # ---- direct oracle on the printed script: same files, same kind of operation, groups in report order
    work0 = os.path.join(s.base + b"_work", b"splitcwd")
    os.makedirs(work0, exist_ok=True)
    real_lines0 = dout.split(b"\n")
    if real_lines0 and real_lines0[-1] == b"":
        real_lines0.pop()
    ops = script_ops(bash_split(real_lines0, work0))
    gidx = {}
    for gi, g in enumerate(groups):
        for pth in g["files"]:
            gidx[pth] = gi
    want = {"remove": ("rm",), "link": ("ln",), "softlink": ("ln-s",), "dedupe": ("cp-reflink",), "move": ("mv", "cp+rm")}[s.op]
    seq = []
    for kind, victim, other in ops:
        if kind not in want or victim not in gidx:
            viol({"kind": "script_names_wrong_operation"}, "printed command %s on %r is not a `%s` of a report path" % (kind, victim, s.op))
            break
        if kind in ("ln", "ln-s", "cp-reflink") and (other not in gidx or gidx[other] != gidx[victim]):
            viol({"kind": "script_link_target_not_in_group"}, "printed link target %r is not a member of the group of %r" % (other, victim))
            break
        seq.append(gidx[victim])
    if seq != sorted(seq):
        viol({"kind": "script_groups_out_of_order"}, "the printed script does not follow the order of the groups in the report: %r" % (seq[:40],))
    script_victims = sorted(v for _, v, _ in ops)
    # ---- model
    m = None
    if model:
        full0 = X.inventory(s.base)
        queries = sorted(set(full0))
        try:
            m = X.parse_model_out(core.run_lines(model, [X.model_line(s, tree_aux, queries, tmp_sfx=X.CANON_SFX)])[0])
        except Exception as e:
            viol({"kind": "model_driver_failed"}, "model driver: %r" % (e,), found=False)
            return out
        out["count"] += 1
        mlines = [bytes.fromhex(h) for h in m["script"].split(",")] if m["script"] not in ("-", "") else []
        if mlines != script:
            k = next((i for i in range(min(len(mlines), len(script))) if mlines[i] != script[i]), min(len(mlines), len(script)))
            viol({"kind": "script_differs_from_model"},
                 "dry-run line %d: implementation %r, model render %r (%d vs %d lines)" % (
                     k, script[k][:200] if k < len(script) else None, mlines[k][:200] if k < len(mlines) else None, len(script), len(mlines)),
                 {"correspondence": "ScriptModel.log_script/render vs `--dry-run`"}, found=False)
    # ---- 2. the real run
    snap = os.path.join(s.base, b"snapshot")
    do_bash = s.op in ("remove", "link", "softlink")
    if do_bash:
        X.snapshot(s.treedir, snap)
    full0 = X.inventory(s.base) if model else None
    rc, _, rerr = s.run_op()
    out["count"] += 1
    rsum = X.summary(rerr)
    invB = X.inventory(s.treedir)
    changed_real = sorted(p for p in inv0 if inv0[p][0] != "d" and not X.entry_same(inv0[p], invB.get(p)))
    # N6: a victim that is a symlink whose target is a victim too; the command on the link fails with ENOENT because it reaches
    # through the link (the lock probe opens it for writing; move-by-copy reads it) after the target is gone
    n6 = False
    if sym_in_report and (b"for write: No such file or directory" in rerr or
                          b"for write: Too many levels of symbolic links" in rerr or      # the target became a link leading back (K7 territory)
                          (b"Failed to copy file" in rerr and b"No such file or directory" in rerr)):
        n6 = any(inv0.get(p, ("?",))[0] == "l" and X.resolve(inv0, p) not in (None, p) and
                 not X.entry_same(inv0.get(X.resolve(inv0, p)), invB.get(X.resolve(inv0, p)))
                 for g in groups for p in g["files"])
    n6sig = {"kind": "symlink_victim_after_its_target"}
    # former N8 (repaired by d75e85d; the signature is no longer a listed finding, so a regression is reported): the temporary
    # name <victim>.<24 random characters> of a victim whose own name is longer than 230 bytes exceeded NAME_MAX, the real run
    # failed for that victim (File name too long) and did not count it, the dry run printed and counted it
    n8 = s.op in ("link", "softlink", "dedupe") and b"File name too long" in rerr and \
        any(len(os.path.basename(v)) > 230 for v in script_victims)
    if n8:
        n6, n6sig = True, {"kind": "victim_name_too_long_for_the_temp_name"}
    if s.op != "dedupe" and changed_real != script_victims and not (s.op == "link" and set(changed_real) <= set(script_victims)):
        # (`link` of two names of one inode with --match-links changes nothing observable)
        if not n6:
            viol({"kind": "script_files_differ_from_real_run"}, "files named by the dry-run script %r, files changed by the real run %r" % (
                script_victims[:8], changed_real[:8]))
    if dsum is None or rsum is None:
        viol({"kind": "summary_missing"}, "no summary line: dry %r real %r" % (derr[-200:], rerr[-200:]))
    else:
        if (dsum["n"], dsum["bytes_text"]) != (rsum["n"], rsum["bytes_text"]) and s.op != "dedupe":
            viol(n6sig if n6 else {"kind": "summary_differs"},
                 "dry run: Would process %d files / %s; real run: Processed %d files / %s" % (dsum["n"], dsum["bytes_text"], rsum["n"], rsum["bytes_text"]),
                 {"stderr": rerr.decode("utf-8", "replace")[-800:]})
        if m is not None:
            dn, db = m["script"] and (int(m_dry(m)[0]), int(m_dry(m)[1]))
            if dsum["n"] != dn or dsum["bytes_text"] != human(db):
                viol({"kind": "dry_summary_differs_from_model"}, "Would process %d files and reclaim %s; model %d files, %d B (%s)" % (
                    dsum["n"], dsum["bytes_text"], dn, db, human(db)), found=False)
            if s.op != "dedupe" and (rsum["n"] != m["processed"] or rsum["bytes_text"] != human(m["reclaimed"])):
                viol(n6sig if (n6 and rel_links_in_report) else {"kind": "real_summary_differs_from_model"}, "Processed %d files / %s; model %d files, %d B" % (
                    rsum["n"], rsum["bytes_text"], m["processed"], m["reclaimed"]), found=False)
    if m is not None:
        full1 = X.inventory(s.base)
        full1.pop(snap, None)
        full1 = {p: e for p, e in full1.items() if not p.startswith(snap + b"/")}
        f0 = {p: e for p, e in full0.items() if p != snap and not p.startswith(snap + b"/")}
        victims = {p for p in f0 if not X.entry_same(f0[p], full1.get(p))}
        queries = sorted(set(X.inventory(s.base)) - {snap} if False else set(f0) | {X.canon_temp(p, victims, f0) for p in full1})
        try:
            m2 = X.parse_model_out(core.run_lines(model, [X.model_line(s, tree_aux, queries)])[0])
            d = X.compare_final(queries, f0, full1, m2["state"], victims)
        except Exception as e:
            d = "model driver: %r" % (e,)
        if d:
            # FsModel follows only absolute link targets (the tree handed to the model has them absolutised): when a relative
            # symlink is re-created elsewhere by K7 the model cannot follow the implementation; that case is N6 / K7, not a new one
            viol(n6sig if (n6 and rel_links_in_report) else {"kind": "real_run_differs_from_model"},
                 "final tree of the real run differs from the model's: " + d, {"model_cmds": m["cmds"][:20]}, found=False)
    # ---- 3. bash on an identical tree
    if do_bash and script:
        shutil.rmtree(s.treedir)
        subprocess.run(["cp", "-a", snap, s.treedir], check=True)
        # the real temp names (not the canonical ones) are what the script contains
        real_lines = dout.split(b"\n")
        if real_lines and real_lines[-1] == b"":
            real_lines.pop()
        work = os.path.join(s.base + b"_work", b"bashcwd")
        os.makedirs(work, exist_ok=True)
        brc, berr = run_bash(real_lines, work)
        out["count"] += 1
        invA = X.inventory(s.treedir)
        sa, sb = dedupe_rt.structure(invA, s.treedir), dedupe_rt.structure(invB, s.treedir)
        if sa != sb:
            diff = sorted(p for p in set(sa) | set(sb) if sa.get(p) != sb.get(p))
            viol(n6sig if n6 else {"kind": "bash_script_differs_from_real_run"},
                 "`bash script` and the real run leave different trees, e.g. %r: script %r, real %r (bash stderr: %s)" % (
                     diff[0], sa.get(diff[0]), sb.get(diff[0]), berr[-200:].decode("utf-8", "replace")),
                 {"differing_paths": [x.decode("utf-8", "replace") for x in diff[:10]]})
        elif brc != 0 or berr:
            out["bump"].append(("bash_stderr_nonempty", 1))
    out["sample"] = {"scenario": name, "op": s.op, "lines": ncmd_lines, "dry": dsum, "real": rsum}
    shutil.rmtree(base, ignore_errors=True)
    shutil.rmtree(base + b"_work", ignore_errors=True)
    return out


def m_dry(m):
    return m.get("dry", "0:0").split(":")


def printer_level(ctx, model, seeds=None):
    """API level: the REAL fclones::log_script on adversarial arrival orders (harness/src/bin/dx.rs: 1500-3000 groups on a
    4-thread rayon pool; one group delayed while > 1024 later ones overtake it, two delayed, reversed, shuffled), checked
    against theorem C11_printer_order: every group exactly once, in index order, count / bytes = all commands; the extracted
    log_loop is run on the same arrival SHAPES (200 groups) and must print the index order too."""
    core.build_harness(["dx"])
    probe = os.path.join(ctx.scratch, "dx_probe.bin")
    with open(probe, "wb") as f:
        f.write(b"1234567")
    seeds = seeds or [ctx.rng.next() % (1 << 62) for _ in range(ctx.pick(2, 12))]
    for rep, seed in enumerate(seeds):
        p = core.run([os.path.join(core.BIN, "dx"), "printer", probe, str(seed)], timeout=120)
        if p.returncode != 0:
            ctx.violation({"kind": "dx_failed"}, "dx printer exited %d: %s" % (p.returncode, p.stderr[-400:]), {"seed": seed}, found_input=False)
            return
        for line in p.stdout.strip().split("\n"):
            kv = dict(t.split("=", 1) for t in line.split(" "))
            ctx.count()
            ctx.distinct(("printer", seed, kv["pattern"]), True)
            ctx.bump("printer_pattern", kv["pattern"])
            ctx.bump("printer_groups", int(kv["n"]) // 500 * 500)
            ok = (kv["order"] == "ok" and kv["missing"] == "0" and kv["dup"] == "0" and kv["printed"] == kv["cmds"] and
                  kv["count"] == kv["cmds"] and int(kv["bytes"]) == int(kv["cmds"]) * int(kv["len"]))
            if not ok:
                ctx.violation({"kind": "printer_drops_or_reorders_groups"},
                              "log_script on %s groups, arrival pattern %s: %s groups never printed, %s printed twice, first disorder at %s "
                              "(pos:got:want), summary counts %s of %s commands" % (kv["n"], kv["pattern"], kv["missing"], kv["dup"], kv["order"],
                                                                                kv["count"], kv["cmds"]),
                              {"replay_how": ".cache/target/debug/dx printer <any existing file> %d" % seed, "dx_line": line,
                               "kind": "printer", "index": rep, "scenario_seed": seed}, found_input=True)
    # the model on the same arrival shapes
    n = 200
    rng = ctx.rng.fork()
    shapes = {"slow0": list(range(1, n)) + [0], "slowmid": [i for i in range(n) if i != 77] + [77],
              "slowtwo": [i for i in range(n) if i not in (1, 77)] + [77, 1], "reversed": list(range(n - 1, -1, -1)),
              "shuffled": rng.shuffle(list(range(n)))}
    outs = core.run_lines(model, ["printer n=%d arrival=%s" % (n, ",".join(map(str, a))) for a in shapes.values()])
    for name, o in zip(shapes, outs):
        ctx.count()
        if not o.startswith("order=ok printed=%d" % n):
            ctx.violation({"kind": "model_printer_out_of_order"}, "extracted log_loop on arrival shape %s: %s" % (name, o), {"shape": name},
                          found_input=False)


def run(ctx):
    ctx.rule = ("case = (generated tree, recorded group options, report format, operation, options); non-trivial = the dry run prints at "
                "least one command; distinct = distinct scenario seed.  Directed: 40-70 groups (printer order), N6, every shell-hostile "
                "name as a victim; then random trees as in C02")
    ctx.assumptions = ["bash 5 and GNU coreutils as installed (ln without -s does not dereference, mv = rename on one file system)",
                       "`dedupe`: FICLONE is refused by the sandbox file system, so only its printed script and dry-run summary are compared",
                       "`move`: the printed script contains no mkdir, so it is not executed by bash (the property claims bash equivalence for remove / link only)"]
    ctx.trusted += ["coq/driver/drv_X.ml", "vlib/props/x_common.py (generator, option semantics, comparisons)",
                    "real bash and GNU coreutils as installed (rm, mv, ln, cp -a)",
                    "engine T's quote / bash model (TextModel.v, tied to the code by C17), engines D and A (C08, C05)"]
    ctx.use_coq()
    core.build_fclones()
    model = core.build_model("X") if os.path.exists(os.path.join(core.COQ, "Extract_X.v")) else None
    cases = []
    if ctx.replay and json.load(open(ctx.replay)).get("kind") == "printer":
        printer_level(ctx, model, seeds=[json.load(open(ctx.replay))["scenario_seed"]])
        return
    if not ctx.replay:
        printer_level(ctx, model)
    if ctx.replay:
        rp = json.load(open(ctx.replay))
        cases.append((rp["kind"], rp.get("index", 0), rp["scenario_seed"]))
    else:
        for i, (k, _) in enumerate(DIRECTED):
            cases.append((k, i, ctx.rng.next()))
        for i in range(ctx.pick(150, 2000)):
            cases.append(("random_sym" if i % 9 == 0 else "random", i, ctx.rng.next()))
    with ThreadPoolExecutor(max_workers=min(12, core.NCPU)) as ex:
        results = list(ex.map(lambda c: _guard(model, ctx.scratch, c), cases))
    for c, r in zip(cases, results):
        ctx.count(r["count"])
        ctx.distinct(r["key"], r["nontrivial"])
        for d, v in r["bump"]:
            ctx.bump(d, v)
        if r["sample"]:
            ctx.sample(r["sample"])
        for sig, what, payload, found in r["viol"]:
            ctx.violation(sig, what, payload, found_input=found)


def _guard(model, scratch, c):
    try:
        # (reports of a --transform run switch the size check off: outside the whole-run model, judged by the model-free parts)
        return run_case(None if c[0].startswith(("transform_lens", "longnames")) else model, scratch, *c)
    except Exception as e:
        import traceback
        return {"viol": [({"kind": "case_crashed"}, "case %r crashed: %r" % (c, e), {"kind": c[0], "index": c[1], "scenario_seed": c[2],
                                                                                   "error": traceback.format_exc()[-2000:]}, False)],
                "bump": [], "nontrivial": False, "key": c, "count": 0, "sample": None}
