"""C18 — `move` maps sources injectively and never overwrites (engine A).

Proof obligations: coq/Props_C18.v (mv_target injective on absolute paths; shape; existence check before
rename AND before copy under every fault oracle — anything at the target, dangling links included, blocks the move;
source unlinked only after a complete copy).
Correspondence:
  (1) API level: harness `fsx mt` calls PartitionedFileGroup::move_target (through verif_api) on generated
      (DIR, path) pairs — absolute / relative, "/" alone, components with spaces, dots, non-UTF-8 bytes — and the
      component list is compared with the extracted mv_target; injectivity and the shape are re-checked on the
      implementation's own outputs.
  (2) CLI level under the shim: `fclones move DIR` with DIR outside / inside the scanned tree / relative with
      "..", or registered as another mount point, pre-populated with a colliding file, a colliding directory, a symlink
      to an existing file, a DANGLING symlink (the former K6, fixed by 041ee27: must-pass regression cases — link
      untouched, nothing written through it, source left in place, warning) at the targets; fault-free, with every rename failed by EXDEV (copy branch) and with a
      failure at every call; trace, final tree and accounting compared with the model; a model-free oracle checks
      that nothing that existed under DIR was altered, that refused sources stay in place with a warning, and that a
      source disappears only when its complete copy exists.
"""
import json
import os
from concurrent.futures import ThreadPoolExecutor

from .. import core
from . import a_common as A
from . import c05

FSX = os.path.join(core.BIN, "fsx")
COLLISIONS = ["none", "file", "empty_file", "dir", "dangling", "dangling_into_dir", "link_to_file"]
# the target IS (another route to) the source: symlink to it (absolute / relative), hard link of it, or a symlinked
# parent directory under DIR that makes the target path resolve to the source itself
SELF_COLLISIONS = ["link_to_source_abs", "link_to_source_rel", "hardlink_of_source", "symlinked_parent"]
MUST_REFUSE = ("file", "empty_file", "dir", "link_to_file", "dangling", "dangling_into_dir") + tuple(SELF_COLLISIONS)


def gen_component(rng):
    k = rng.below(10)
    if k == 0:
        return b".."
    if k == 1:
        return bytes([rng.choice([0x20, 0x27, 0x5c, 0x3a, 0xc5, 0xbc, 0xff, 0x2a])]) + b"x"
    if k == 2:
        return b"." + bytes([97 + rng.below(3)])
    if k == 3:
        return b"a.b"
    if k == 4:
        return b"..."
    return bytes([97 + rng.below(4)]) * (1 + rng.below(2))


def gen_path(rng, absolute, maxlen=4, allow_dotdot=True):
    n = rng.below(maxlen + 1)
    comps = []
    for _ in range(n):
        c = gen_component(rng)
        while c == b".." and not allow_dotdot:
            c = gen_component(rng)
        comps.append(c)
    if absolute:
        return "/" + "/".join(A.pct(c) for c in comps)
    if not comps:
        comps = [b"r"]
    return "/".join(A.pct(c) for c in comps)


def ref_components(text):
    parts = [A.unpct(x).encode("utf-8", "surrogateescape") for x in text.split("/") if x != ""]
    return ([b"/"] if text.startswith("/") else []) + parts


def api_level(ctx, model):
    cases = []
    n = ctx.pick(3000, 40000)
    for i in range(n):
        d = gen_path(ctx.rng, ctx.rng.chance(4, 5), 3)
        kind = ctx.rng.below(12)
        if kind == 0:
            p = "/"
        elif kind == 1:
            p = gen_path(ctx.rng, False, 3, allow_dotdot=False)
        else:
            p = gen_path(ctx.rng, True, 4, allow_dotdot=ctx.rng.chance(1, 4))
        if d == "":
            d = "/"
        cases.append((d, p))
    impl = core.run_lines_parallel(FSX, ["%s %s" % c for c in cases], args=["mt"])
    mod = core.run_lines_parallel(model, ["mtraw %s %s" % c for c in cases])
    by_dir = {}
    bad_corr = []
    for (d, p), a, b in zip(cases, impl, mod):
        ctx.count()
        comps_p = ref_components(p)
        absolute = p.startswith("/")
        ctx.distinct(("mt", d, p), len(comps_p) > 1)
        ctx.bump("api_path_kind", "root_only" if p == "/" else ("absolute" if absolute else "relative"))
        ctx.bump("api_dir_kind", "absolute" if d.startswith("/") else "relative")
        ctx.bump("api_path_components", min(len(comps_p), 5))
        got = [A.unpct(x).encode("utf-8", "surrogateescape") for x in a.split("|")]
        if a != b:
            bad_corr.append({"dir": d, "path": p, "implementation": a, "model": b})
        # model-free oracle: shape and injectivity on absolute sources
        if absolute:
            want = ref_components(d) + [b"."] + (comps_p[1:] if len(comps_p) > 1 else [b"."])
            if got != want:
                ctx.violation({"kind": "move_target_shape"}, "move_target(%s, %s) = %r, expected DIR/./<path without root> = %r" % (d, p, got, want),
                              {"dir": d, "path": p, "implementation": a, "replay_cmd": "printf '%s %s\\n' | %s mt" % (d, p, FSX)}, found_input=True)
            key = (d, tuple(got))
            prev = by_dir.get(key)
            if prev is not None and ref_components(prev) != comps_p:
                ctx.violation({"kind": "move_target_collision"}, "two distinct absolute sources %s and %s map to the same target under %s" % (prev, p, d),
                              {"dir": d, "paths": [prev, p], "target": a}, found_input=True)
            by_dir[key] = p
    return bad_corr


# ------------------------------------------------------------------------------------------------
def gen_cli_scenario(rng, sid, base, variant, collisions):
    """one group of 1 retained + len(collisions) victims; collisions[i] describes what sits at victim i's target"""
    content = bytes([97 + rng.below(26) for _ in range(5 + rng.below(20))])
    # every victim lives in its own directory, so that what one command leaves behind under DIR is not repaired by the next
    vdirs = ["b", "c", "d", "e"]
    members = [("a/keep", 0)] + [("%s/v%d" % (vdirs[i % 4], i), i + 1) for i in range(len(collisions))]
    scn = A.Scenario(sid, base, [{"content": content, "members": members}],
                     move_dir={"outside": "out", "inside": "w/zz_out", "relative": "out_rel", "other_mount": "out",
                               "via_missing": "out_rel", "via_missing2": "out_rel", "via_existing": "out_rel",
                               "via_missing_other_mount": "out_rel", "via_link": "far/away/out_rel"}[variant])
    scn.fake_mount = variant in ("other_mount", "via_missing_other_mount")     # hook FCLONES_VERIF_MOUNTS: DIR on "another file system" => use_rename = false
    if variant == "relative":
        scn.cwd = scn.base
        scn.dir_cli = "../%s/out_rel" % sid
    elif variant.startswith("via_"):
        # DIR spelled through another directory and "..": a MISSING one (the kernel cannot resolve newdir/.. until newdir
        # exists: the class of the defect fixed by 730c76a) or an existing one
        scn.cwd = scn.base
        scn.dir_cli = {"via_missing": "newdir/../out_rel", "via_missing_other_mount": "newdir/../out_rel",
                       "via_missing2": "na/nb/../../out_rel", "via_existing": "w/../out_rel", "via_link": "lnk/../out_rel"}[variant]
        if variant == "via_link":
            # lnk -> far/away/inner: the kernel resolves lnk/../out_rel to far/away/out_rel (NOT to ./out_rel): lookup and action
            # must agree on that place; the collisions sit there
            scn.dir_phys = os.path.join(scn.base, "far/away/out_rel")
            scn.model_skip = True
        if "missing" in variant:
            # the lexical norm of FsModel.v treats newdir/.. as if newdir existed: the extra mkdir(newdir) of the real run and
            # the directory it leaves behind are outside the model; these runs are evaluated by the model-free oracle only
            scn.model_skip = True
    extra = []
    if variant == "via_link":
        extra += [("dir", "far/away/inner"), ("symlink", "lnk", "far/away/inner")]
    for i, col in enumerate(collisions):
        a = os.path.join(scn.root, "%s/v%d" % (vdirs[i % 4], i))
        rel = scn.move_dir + a                     # DIR/<absolute path without the root>
        if col == "file":
            extra.append(("file", rel, b"precious-%d" % i))
        elif col == "empty_file":
            extra.append(("file", rel, b""))          # a ZERO-LENGTH user file is something that exists, too
        elif col == "dir":
            extra.append(("dir", rel))
        elif col == "dangling":
            extra.append(("symlink", rel, "nowhere/n%d" % i))
        elif col == "dangling_into_dir":       # the link's destination does not exist but its directory does
            extra.append(("dir", "hole"))
            extra.append(("symlink", rel, "hole/h%d" % i))
        elif col == "empty_dirs":
            # every directory on the way to the target exists already, EMPTY: nothing of it may disappear, whatever fails
            e = ("dir", os.path.dirname(rel))
            if e not in extra:
                extra.append(e)
        elif col == "private_dirs":
            # the directory the target goes into exists already with permission bits of its own (0700 / 0750): they stay as they are
            e = ("dir", os.path.dirname(rel), 0o700 if i % 2 == 0 else 0o750)
            if e not in extra:
                extra.append(e)
        elif col == "empty_dir_root":
            e = ("dir", scn.move_dir)          # only DIR itself exists, empty
            if e not in extra:
                extra.append(e)
        elif col == "sibling_part":
            # the target itself is free, but unrelated user files sit next to it under names a staging scheme might pick
            extra.append(("file", rel + ".part", b"user-part-%d" % i))
            extra.append(("file", rel + ".tmp", b"user-tmp-%d" % i))
        elif col == "link_to_source_abs":
            extra.append(("symlink", rel, a))
        elif col == "link_to_source_rel":
            extra.append(("symlink_raw", rel, os.path.relpath(a, os.path.dirname(os.path.join(scn.base, rel)))))
        elif col == "hardlink_of_source":
            extra.append(("hardlink", rel, os.path.relpath(a, scn.base)))
        elif col == "symlinked_parent":
            # DIR/<abs path of the source's directory> is a symlink to that directory: lstat(target) finds the source
            e = ("symlink", os.path.dirname(rel), os.path.dirname(a))
            if e not in extra:
                extra.append(e)
            scn.model_skip = True       # symbolic links in the directory part of a path are outside FsModel.v
        elif col == "link_to_file":
            extra.append(("file", "elsewhere/e%d" % i, b"linked-%d" % i))
            extra.append(("symlink", rel, "elsewhere/e%d" % i))
    scn.extra = extra
    scn.collisions = collisions
    return scn


def explore(env, scn, quick):
    os.makedirs(scn.base, exist_ok=True)
    groups = scn.make_report(env["fclones"])
    scn.build()
    inv0 = A.inventory(scn.base)
    cmds = c05.scn_cmds(scn, "move", groups, inv0)
    out = []
    c0 = c05.run_case(env, scn, "move", {}, inv0, cmds)
    out.append(c0)
    m = max([int(f[0]) for f in c0.res["trace"]] or [0])
    renames = [x["ks"][0] for x in c0.calls if x["kind"] == "rename"]
    in_copy = {k for x in c0.calls if x["kind"] == "copy" for k in x["ks"]}
    for kr in renames:
        cb = c05.run_case(env, scn, "move", {"fail": (kr, "EXDEV")}, inv0, cmds)
        out.append(cb)
        # a second failure inside the std::fs::copy of the fallback (open of the target, fchmod, copy_file_range)
        for x in cb.calls:
            if x["kind"] == "copy" and x["ks"][0] > kr:
                for k2 in x["ks"]:
                    for e in (c05.ERRNOS if not quick else ["EPERM", "EIO"]):
                        out.append(c05.run_case(env, scn, "move", {"fail": (kr, "EXDEV"), "fail2": (k2, e)}, inv0, cmds))
                break
    # every rename fails at once is not expressible with two slots; the pair (first, second) is
    if len(renames) >= 2:
        out.append(c05.run_case(env, scn, "move", {"fail": (renames[0], "EXDEV"), "fail2": (renames[1] + 0, "EXDEV")}, inv0, cmds))
    for k in range(1, m + 1):
        for e in (c05.ERRNOS if k in in_copy else [c05.ERRNOS[k % 5]]):
            out.append(c05.run_case(env, scn, "move", {"fail": (k, e)}, inv0, cmds))
        if not quick:
            out.append(c05.run_case(env, scn, "move", {"kill": (k, "after")}, inv0, cmds))
    return out


def cli_oracle(c):
    """model-free evaluation of C18 on one run: returns [(sig, text)]"""
    bad = []
    scn = c.scn
    killed = c.spec.get("kill") is not None
    dir_abs = os.path.normpath(scn.dir_arg())
    inv0, inv1 = c.inv0, c.inv1
    # (a) nothing that existed under DIR is altered
    for p, e in inv0.items():
        if p == dir_abs or p.startswith(dir_abs + "/"):
            e1 = inv1.get(p)
            if e[0] == "D":
                ok = e1 is not None and e1[0] == "D"
                if ok and e1[1:] != e[1:]:
                    bad.append(({"kind": "existing_directory_mode_altered"},
                                "the directory %s existed under DIR and its permission bits changed: %o -> %o" % (p, e[1], e1[1])))
            elif e[0] == "L":
                ok = e1 == e
                t = e[1] if e[1].startswith("/") else os.path.join(os.path.dirname(p), e[1])
                if ok and c05.bytes_follow(inv0, p) is None and c05.bytes_follow(inv1, p) is not None:
                    # regression case of the former K6 (copy branch): the link is intact but something was written THROUGH it
                    bad.append(({"kind": "dangling_symlink_at_target_written_through"},
                                "the dangling symbolic link %s at the move target now resolves: the copy wrote through it to %s" % (p, t)))
            else:
                ok = e1 is not None and e1[0] == "F" and e1[3] == e[3] and e1[1] == e[1]
            if not ok:
                if e[0] == "L" and c05.bytes_follow(inv0, p) is None:
                    bad.append(({"kind": "dangling_symlink_at_target_overwritten"},
                                "the dangling symbolic link %s that existed at the move target was replaced (%r -> %r)" % (p, e, e1)))
                else:
                    bad.append(({"kind": "existing_target_altered"}, "%s existed under DIR and was altered: %r -> %r" % (p, e, e1)))
    # (b)/(c)/(d) per source
    summ = A.log_summary(c.res["stderr"])
    for cm, col in zip(c.cmds, scn.collisions):
        a, tgt = cm["a"], os.path.normpath(cm["tgt"])
        b0 = inv0[a][3]
        if a not in inv1:
            if c05.bytes_follow(inv1, tgt) != b0:
                bad.append(({"kind": "source_deleted_without_complete_copy"}, "%s is gone but %s does not hold its bytes" % (a, tgt)))
        if col in MUST_REFUSE and not killed:
            if inv1.get(a) != inv0[a]:
                bad.append(({"kind": "colliding_source_not_left_in_place"}, "target %s existed (%s) but the source %s changed" % (tgt, col, a)))
            if summ["warn"] == 0:
                bad.append(({"kind": "collision_without_warning"}, "target %s existed (%s) and no warning was logged" % (tgt, col)))
    return bad


def run(ctx):
    ctx.rule = ("(1) API: random (DIR, path) pairs over components with spaces, quotes, backslash, colon, non-UTF-8 bytes, dots, '..', "
                "'/' alone, relative paths; a case = one pair; non-trivial = the source has at least one component after the root. "
                "(2) CLI: one group of 1 retained + 2 victims, DIR outside / inside the tree / relative with '..' / registered as another mount point (use_rename = false), each victim's target "
                "pre-populated with {nothing, file, directory, dangling symlink (destination directory missing / present), symlink to a file, "
                "symlink to the SOURCE (absolute / relative), hard link of the source, symlinked parent directory resolving to the source's directory, "
                "EMPTY directories pre-existing along the target path / an empty DIR (must survive every copy failure)}; fault-free, each rename failed with "
                "EXDEV (copy branch), one failure at every call; a case = one run of the binary under the shim")
    ctx.assumptions = ["no symbolic links in the directory part of the paths; symlink targets absolute",
                       "sources are absolute paths as Path::from builds them (C18_injective is stated for wf_abs paths; the relative "
                       "path ./a/b maps to the same target as /a/b — shown by the API-level cases, outside the property's quantifier)"]
    ctx.trusted.append("C18: shim/fsshim.c and the trace abstraction of vlib/props/a_common.py (see C05); harness/src/bin/fsx.rs reconstructs "
                       "the component list of a fclones::Path from the byte forms of its parents")
    ctx.use_coq()
    model = core.build_model("A")
    core.build_harness(["fsx"])
    env = {"fclones": core.build_fclones(), "shim": core.build_shim()}

    bad_corr = api_level(ctx, model) if not ctx.replay else []
    if bad_corr:
        ctx.pending = bad_corr

    if ctx.replay:
        rp = json.load(open(ctx.replay))
        scn = gen_cli_scenario(core.SplitMix64(rp.get("scenario_seed", 1)), "replay", ctx.scratch, rp["variant"], rp["collisions"])
        os.makedirs(scn.base, exist_ok=True)
        groups = scn.make_report(env["fclones"])
        scn.build()
        inv0 = A.inventory(scn.base)
        cmds = c05.scn_cmds(scn, "move", groups, inv0)
        spec = {k: (tuple(v) if isinstance(v, list) else v) for k, v in rp["fault"].items()}
        cases = [c05.run_case(env, scn, "move", spec, inv0, cmds)]
        for c in cases:
            c.variant, c.seed = rp["variant"], rp.get("scenario_seed", 1)
    else:
        jobs = []
        combos = [("none", "none"), ("file", "none"), ("dir", "dangling"), ("dangling", "file"), ("link_to_file", "dir"),
                  ("dangling", "dangling"), ("file", "link_to_file"), ("dangling_into_dir", "none"), ("dir", "dangling_into_dir"),
                  ("link_to_source_abs", "none"), ("link_to_source_rel", "hardlink_of_source"), ("hardlink_of_source", "link_to_source_abs"),
                  ("symlinked_parent", "symlinked_parent"),
                  ("empty_dirs", "empty_dirs"), ("empty_dirs", "file"), ("private_dirs", "none"), ("private_dirs", "file"), ("empty_file", "none"), ("file", "empty_file"), ("empty_dir_root", "none"), ("sibling_part", "file")]
        if not ctx.quick:
            combos += [(x, y) for x in COLLISIONS + SELF_COLLISIONS[:3] for y in COLLISIONS + SELF_COLLISIONS[:3] if (x, y) not in combos]
        n = 0
        via_combos = [("file", "none"), ("none", "none"), ("dir", "dangling"), ("link_to_file", "file"), ("sibling_part", "file"), ("empty_file", "none")]
        for variant in ("outside", "inside", "relative", "other_mount", "via_missing", "via_missing2", "via_existing",
                        "via_missing_other_mount", "via_link"):
            for col in (combos if not variant.startswith("via_") or not ctx.quick else via_combos):
                if variant == "inside" and "hardlink_of_source" in col:
                    continue        # a hard link inside the scanned tree would itself be a member of the group
                seed = ctx.rng.next()
                scn = gen_cli_scenario(core.SplitMix64(seed), "m%d" % n, ctx.scratch, variant, list(col))
                scn.variant, scn.seed = variant, seed
                jobs.append(scn)
                n += 1
        with ThreadPoolExecutor(max_workers=core.NCPU) as ex:
            res = list(ex.map(lambda scn: explore(env, scn, ctx.quick), jobs))
        cases = [c for r in res for c in r]
        for c in cases:
            c.variant, c.seed = c.scn.variant, c.scn.seed

    outs = core.run_lines_parallel(model, [c.line for c in cases]) if cases else []
    corr = []
    for c, o in zip(cases, outs):
        ctx.count()
        spec = c.spec
        ctx.distinct((c.scn.sid, repr(spec)), True)
        ctx.bump("cli_dir_variant", c.variant)
        for col in c.scn.collisions:
            ctx.bump("cli_collision_at_target", col)
        ctx.bump("cli_fault", "none" if not spec else ("kill" if "kill" in spec else ("pair" if "fail2" in spec else spec["fail"][1])))
        ctx.bump("cli_copy_branch_taken", "yes" if any(x["kind"] == "copy" for x in c.calls) else "no")

        def payload(c=c):
            d = c05.describe(c)
            d.update({"variant": c.variant, "collisions": c.scn.collisions, "scenario_seed": c.seed})
            return d
        if c05.std_copy_assertion(c):
            # fault sequence outside the fault model: Rust std's kernel_copy asserts (see c05.std_copy_assertion)
            ctx.bump("fault_sequence_outside_model", "std kernel_copy assertion")
            continue
        for sig, text in cli_oracle(c):
            ctx.violation(sig, "C18 violated by the implementation: " + text, payload(), found_input=True)
        if getattr(c.scn, "model_skip", False):
            ctx.bump("cli_correspondence_only(outside_the_model)", "DIR_through_a_symlink_and_dotdot" if c.variant == "via_link" else "DIR_through_a_missing_directory" if c.variant.startswith("via_")
                     else "symlinked_parent_directory")
            continue
        if c.extra.get("abstraction_error"):
            corr.append((c, "trace", "the libc trace could not be abstracted to the model's calls: " + c.extra["abstraction_error"]))
            continue
        try:
            mo = A.parse_model_out(o)
        except Exception as e:
            corr.append((c, "model", str(e)))
            continue
        killed = c.kill is not None
        d = A.compare_trace(c.calls, mo["trace"], killed)
        if d:
            corr.append((c, "trace", d))
            continue
        known_mt = {e[2] for e in c.inv0.values() if e[0] == "F"}
        ds = A.compare_state(c.inv1, c.queries, mo["state"], c05.victims_of(c.cmds), known_mt)
        if ds:
            corr.append((c, "state", "; ".join(ds[:4])))
            continue
        if not killed:
            summ = A.log_summary(c.res["stderr"])
            if summ["processed"] != mo["processed"] or summ["warn"] != mo["warn"] or c.res["exit"] != 0:
                corr.append((c, "accounting", "implementation: processed=%s warnings=%d exit=%d; model: processed=%d warnings=%d"
                             % (summ["processed"], summ["warn"], c.res["exit"], mo["processed"], mo["warn"])))
                continue
        if len(ctx.samples) < 6 and any(x != "none" for x in c.scn.collisions):
            ctx.sample({"variant": c.variant, "collisions": c.scn.collisions, "fault": spec, "model_results": mo["results"],
                        "abstract_trace_tail": [x["text"].split("(")[0] + "=" + x["res"] for x in c.calls][-10:]})
    ctx.extra["exhaustive"] = False
    ctx.extra["runs_of_the_real_binary"] = len(cases)
    if os.environ.get("VERIF_DEBUG"):
        for c, what, d in corr[:int(os.environ["VERIF_DEBUG"])]:
            core.log("DISAGREE %s %s %s %s: %s" % (c.variant, c.scn.collisions, c.spec, what, d))
    have_input = any(v[3] for v in ctx.violations)
    if bad_corr and not have_input:
        ctx.violation({"kind": "move_target_mismatch"}, "move_target: implementation and model differ on %d pairs, first %r; shape and injectivity "
                      "hold on the implementation's outputs" % (len(bad_corr), bad_corr[0]), {"cases": bad_corr[:5]}, found_input=False)
    if corr:
        c, what, d = corr[0]
        rp = c05.describe(c)
        rp.update({"variant": c.variant, "collisions": c.scn.collisions, "scenario_seed": c.seed,
                   "correspondence": "%s comparison between the fclones binary under the shim and the extracted model" % what,
                   "disagreement": d, "disagreeing_runs": len(corr)})
        if not have_input:
            ctx.violation({"kind": what + "_mismatch"}, "model and implementation disagree (%s) on %d runs, first: %s %s %s: %s; the model-free "
                          "oracle found no unlisted violation of C18" % (what, len(corr), c.variant, c.scn.collisions, c.spec, d), rp, found_input=False)
        else:
            core.log("model/implementation disagreement on %d runs (first: %s)" % (len(corr), d))
