"""C14 — a report is internally consistent in every output format (engine Rp).

Proof obligations: coq/Props_C14.v over coq/ReportModel.v (statistics, group order, path order).
Tie to the code: the binary built from /repo is run on generated trees in all four formats; the
parsed body (with the real inode ids) is handed to the extracted model, which recomputes the
header statistics with the code's own rules (stats_of) and checks that the body is a fixpoint of
`finalize` (group order by (len, 128-bit hash prefix) descending, path order by Path's derived
Ord, isolate roots contiguous in the order given).  An independent Python oracle recomputes the
statistics from the property text (redundant = files of the sub-groups beyond rf).
"""
import csv
import io
import os
import re

from .. import core, treegen

GROUP_RE = re.compile(r"^([a-f0-9]+), ([0-9]+) B \([^)]*\) \* ([0-9]+):$")


def enc_path(p):
    comps = [b"/"] + [c for c in p.split(b"/") if c]
    return ":".join(".".join(str(b) for b in c) for c in comps)


def parse_text(out):
    """-> (stats dict, groups [(hash, len, count, [paths])])"""
    stats, groups = {}, []
    lines = out.decode("utf-8").split("\n")
    i = 0
    while i < len(lines):
        l = lines[i]
        if l.startswith("#"):
            m = re.match(r"# Total: (\d+) B \(.*\) in (\d+) files in (\d+) groups", l)
            if m:
                stats.update(total_size=int(m.group(1)), total_files=int(m.group(2)), groups=int(m.group(3)))
            m = re.match(r"# Redundant: (\d+) B \(.*\) in (\d+) files", l)
            if m:
                stats.update(red_size=int(m.group(1)), red_files=int(m.group(2)))
            m = re.match(r"# Missing: (\d+) B \(.*\) in (\d+) files", l)
            if m:
                stats.update(mis_size=int(m.group(1)), mis_files=int(m.group(2)))
            i += 1
            continue
        if not l:
            i += 1
            continue
        m = GROUP_RE.match(l)
        if not m:
            raise ValueError("bad group header line %r" % l)
        paths = []
        i += 1
        while i < len(lines) and lines[i].startswith("    "):
            paths.append(treegen.stfu8_decode(lines[i][4:]))
            i += 1
        groups.append((m.group(1), int(m.group(2)), int(m.group(3)), paths))
    return stats, groups


def parse_fdupes(out):
    groups, cur = [], []
    for l in out.decode("utf-8").split("\n"):
        if l:
            cur.append(treegen.stfu8_decode(l))
        elif cur:
            groups.append(cur)
            cur = []
    if cur:
        groups.append(cur)
    return groups


def parse_csv(out):
    rows = list(csv.reader(io.StringIO(out.decode("utf-8"))))
    assert rows[0] == ["size", "hash", "count", "files"], rows[0]
    return [(r[1], int(r[0]), int(r[2]), [treegen.stfu8_decode(p) for p in r[3:]]) for r in rows[1:] if r]


def py_subgroups(files, roots, by_id):
    """Independent re-implementation from the documentation: one sub-group per isolated root (in the order
    given), then hard-link sets (or single paths with --match-links) in order of first appearance."""
    def root_of(p):
        for i, r in enumerate(roots):
            rc = [c for c in r.split(b"/") if c]
            pc = [c for c in p.split(b"/") if c]
            if pc[:len(rc)] == rc:
                return i
        return None
    out = [[] for _ in roots]
    rest = {}
    order = []
    for p, ident in files:
        ri = root_of(p)
        if ri is not None:
            out[ri].append(p)
        else:
            k = ident if by_id else p
            if k not in rest:
                rest[k] = []
                order.append(k)
            rest[k].append(p)
    return [g for g in out if g] + [rest[k] for k in order]


def huge_files_order_check(ctx):
    """groups ordered by decreasing file size also beyond 4 GiB: sparse files (no data blocks), --skip-content-hash so that only
    prefix and suffix are read; every format"""
    base = os.path.join(ctx.scratch, "huge")
    os.makedirs(base, exist_ok=True)
    sizes = [(1 << 32) + 10, (1 << 32) + 5, (1 << 33) + 1, (1 << 32) - 7, 100, 70000]
    try:
        for k, sz in enumerate(sizes):
            for c in "ab":
                with open(os.path.join(base, "s%d%s" % (k, c)), "wb") as f:
                    f.truncate(sz)
    except OSError as e:
        ctx.bump("huge_files", "skipped(%s)" % e.__class__.__name__)
        return
    for fmt in ("json", "default", "csv", "fdupes"):
        rc, out, err = treegen.fclones(["group", base, "--skip-content-hash", "-f", fmt], cwd=base, env={"FCLONES_VERIF_DISK_KIND": "ssd"})
        ctx.count()
        ctx.distinct(("huge", fmt), True)
        ctx.bump("huge_files", fmt)
        payload = {"scenario": "sparse files of sizes %s (two each), --skip-content-hash" % sizes, "format": fmt, "stderr": err.decode("utf-8", "replace")[-300:]}
        if rc != 0:
            ctx.violation({"kind": "run_failed", "dimension": "huge_files"}, "fclones group failed (%d)" % rc, payload, found_input=True)
            continue
        if fmt == "json":
            lens = [g["len"] for g in treegen.parse_json_report(out.decode("utf-8"))[1]]
        elif fmt == "default":
            lens = [l for h, l, c, p in parse_text(out)[1]]
        elif fmt == "csv":
            lens = [l for h, l, c, p in parse_csv(out)]
        else:
            lens = [os.stat(g[0]).st_size for g in parse_fdupes(out)]
        payload["group_lengths"] = lens
        if sorted(lens, reverse=True) != lens or sorted(lens) != sorted(sizes):
            ctx.violation({"kind": "groups_not_by_decreasing_size", "dimension": "huge_files"},
                          "groups are not listed by decreasing file size / a size class is missing: %s" % lens, payload, found_input=True)
    import shutil
    shutil.rmtree(base, ignore_errors=True)


def output_inside_tree_check(ctx, n):
    """`-o FILE` with FILE under a scanned input path and `--min 0`: the freshly created, still empty FILE is one more empty file
    of the tree.  Whatever fclones decides about listing it, the report written into FILE must be consistent with itself: header
    group / file counts = what the body lists, no group without paths, redundant count = the documented rule (plain files, no links)."""
    import shutil
    for i in range(n):
        rng = ctx.rng.fork()
        base = os.path.realpath(os.path.join(ctx.scratch, "oin%d" % i))
        shutil.rmtree(base, ignore_errors=True)
        root = os.path.join(base, "r")
        os.makedirs(os.path.join(root, "sub"))
        for k in range(1 + rng.below(3)):
            open(os.path.join(root, rng.choice(["", "sub"]), "empty%d" % k), "wb").close()
        data = treegen.content(rng.next(), 10)
        for k in range(2 + rng.below(2)):
            with open(os.path.join(root, "d%d" % k), "wb") as f:
                f.write(data)
        with open(os.path.join(root, "single"), "wb") as f:
            f.write(b"only one of these")
        fmt = rng.choice(["json", "json", "default"])
        ofile = os.path.join(root, rng.choice(["", "sub"]), "report." + fmt)
        opts = ["--min", "0"] + rng.choice([[], ["--unique"], ["--rf-over", "0"], ["--rf-over", "2"]])
        rc, out, err = treegen.fclones(["group", root] + opts + ["-f", fmt, "-o", ofile], cwd=base, env={"FCLONES_VERIF_DISK_KIND": "ssd"})
        ctx.count()
        ctx.distinct(("oin", i, tuple(opts), fmt), True)
        ctx.bump("output_file_inside_the_scanned_tree", " ".join(opts[2:]) or "default")
        payload = {"scenario": "-o FILE inside the scanned tree, --min 0, empty files present", "opts": opts, "format": fmt, "ofile": ofile,
                   "stderr": err.decode("utf-8", "replace")[-300:], "replay": "cd %s && fclones group r %s -f %s -o %s" % (base, " ".join(opts), fmt, ofile)}
        if rc != 0 or not os.path.exists(ofile):
            ctx.violation({"kind": "run_failed"}, "fclones group -o FILE (inside the tree) failed (%d)" % rc, payload, found_input=True)
            continue
        text = open(ofile, "rb").read()
        payload["report"] = text.decode("utf-8", "replace")[:1500]
        try:
            if fmt == "json":
                hdr, groups = treegen.parse_json_report(text.decode("utf-8"))
                st = hdr.get("stats", {})
                hg, hf, hr = st.get("group_count"), st.get("total_file_count"), st.get("redundant_file_count")
                sizes = [len(g["files"]) for g in groups]
            else:
                lines = text.decode("utf-8", "replace").split("\n")
                tot = [l for l in lines if l.startswith("# Total:")][0]
                red = [l for l in lines if l.startswith("# Redundant:")][0]
                hf = int(tot.split(" in ")[1].split()[0])
                hg = int(tot.split(" in ")[2].split()[0])
                hr = int(red.split(" in ")[1].split()[0])
                heads = [l for l in lines if l and not l.startswith("#") and not l.startswith(" ")]
                declared = [int(l.split("*")[1].split(":")[0]) for l in heads]
                sizes, cur = [], None
                for l in lines:
                    if l and not l.startswith("#") and not l.startswith(" "):
                        sizes.append(0)
                    elif l.startswith("    ") and sizes:
                        sizes[-1] += 1
                if declared != sizes:
                    ctx.violation({"kind": "group_header_count_differs"}, "a group header's count is not the number of paths under it: %r vs %r" % (declared, sizes),
                                  payload, found_input=True)
        except Exception as e:  # noqa
            ctx.violation({"kind": "report_unparsable"}, "the report written into FILE cannot be read: %r" % (e,), payload, found_input=True)
            continue
        bad = []
        if hg != len(sizes):
            bad.append("header says %s groups, body has %d" % (hg, len(sizes)))
        if hf != sum(sizes):
            bad.append("header says %s files, body lists %d" % (hf, sum(sizes)))
        if any(x == 0 for x in sizes):
            bad.append("a group without paths")
        if "--unique" not in opts:
            rf = int(opts[opts.index("--rf-over") + 1]) if "--rf-over" in opts else 1
            want = sum(max(0, x - max(rf, 1)) for x in sizes)
            if hr != want:
                bad.append("header says %s redundant files, the body implies %d" % (hr, want))
        if bad:
            ctx.violation({"kind": "header_stats_differ_from_body", "dimension": "output_inside_tree"},
                          "report written with -o into the scanned tree is inconsistent: " + "; ".join(bad), payload, found_input=True)
        shutil.rmtree(base, ignore_errors=True)


def run(ctx):
    ctx.rule = ("generated trees x option sets (default, --rf-over k, --unique, --rf-under k, --isolate, --match-links, transform) x "
                "4 output formats; a case = (tree, option set); non-trivial = the report has at least one group; "
                "distinct = distinct (tree index, options)")
    ctx.assumptions = ["serde_json / csv crates transport strings unchanged (checked by parsing with python json/csv)",
                       "stat() identity of hard links"]
    ctx.use_coq()
    model = core.build_model("Rp")
    core.build_fclones()
    ntrees = ctx.pick(24, 200)
    for ti in range(ntrees):
        rng = ctx.rng.fork()
        base = os.path.join(ctx.scratch, "t%d" % ti)
        nroots = 1 + rng.below(3)
        many_roots = ti % 6 == 5
        if many_roots:
            nroots = 16 + rng.below(10)          # many input paths: their order must survive every internal pass over them
        tree = treegen.gen_tree(rng, base, nroots=nroots, nfiles=(5 + rng.below(30)) if not many_roots else (3 * nroots + rng.below(20)), hardlinks=True,
                                sizes=treegen.SMALL_SIZES + [16384, 65536, 70000],
                                names="hostile" if rng.chance(1, 3) else "plain")
        roots = list(tree.roots)
        # input paths of different depths (a shallow root given BEFORE a deeper one) and nested input paths: the order of the
        # sub-groups is the order given, whatever the depth
        if nroots >= 2 and rng.chance(2, 3):
            nested = rng.chance(1, 2)
            host = roots[0] if nested else roots[1]
            subdirs = sorted({os.path.dirname(f["path"]) for f in tree.files
                              if os.path.dirname(f["path"]).startswith(host + b"/")}, key=lambda d: (-d.count(b"/"), d))
            if subdirs:
                deep = subdirs[rng.below(min(3, len(subdirs)))]
                roots = [roots[0], deep] + roots[2:]
                inner_first = nested and rng.chance(1, 2)
                if inner_first:
                    # the INNER root given before the outer one: its files belong to it (first matching root), the rest of the
                    # outer root's files to the outer root, whatever file was looked at before
                    roots = [deep, roots[0]] + roots[2:]
                    # one content class with members in the outer root only AND in the inner root, interleaved in path order
                    f0 = tree.files[rng.below(len(tree.files))]
                    data0 = open(f0["path"], "rb").read()
                    for d_, n_ in ((host, b"aa_outer"), (deep, b"mm_inner"), (host, b"zz_outer"), (deep, b"aa_inner")):
                        tp = os.path.join(d_, n_)
                        if not os.path.lexists(tp):
                            tree.add_file(tp, data0, f0["cls"])
                ctx.bump("root_depths", ("nested_inner_first" if inner_first else "nested") if nested else "shallow_before_deeper")
        # twin names differing only in a byte that is not valid UTF-8 (same directory, same content): the listing order
        # must be the derived Path order whatever the inode / arrival order
        twin_dir = None
        if ti % 3 == 0 and tree.files:
            f0 = tree.files[rng.below(len(tree.files))]
            data0 = open(f0["path"], "rb").read()
            twin_dir = os.path.dirname(f0["path"])
            order = [b"\xe8", b"\xe9", b"\xff"]
            if rng.chance(1, 2):
                order.reverse()          # creation order = inode order varies, the listing must not
            for b in order:
                tp = os.path.join(twin_dir, b"caf" + b + b".txt")
                if not os.path.lexists(tp):
                    tree.add_file(tp, data0, f0["cls"])
        optsets = [[], ["--rf-over", "0"], ["--rf-over", "2"], ["--unique"], ["--rf-under", "3"], ["--match-links"],
                   ["--transform", "cat"]]
        if nroots >= 2:
            optsets += [["--isolate"], ["--isolate", "--rf-under", "2"]] if nroots >= 2 else []
        opts = rng.choice(optsets)
        if many_roots:
            opts = rng.choice([["--isolate"], ["--isolate", "--rf-over", "2"], ["--isolate", "--rf-under", "3"]])
            ctx.bump("root_depths", "many_roots(16-25)")
        if roots != list(tree.roots) and rng.chance(2, 3):
            opts = rng.choice([["--isolate"], ["--isolate", "--rf-under", "2"], ["--isolate", "--rf-over", "0"]])
        env = {"FCLONES_VERIF_DISK_KIND": "ssd"}
        rf, kind = 1, "O"
        if "--rf-over" in opts:
            rf = int(opts[opts.index("--rf-over") + 1])
        if "--unique" in opts:
            kind, rf = "U", 2
        if "--rf-under" in opts:
            kind, rf = "U", int(opts[opts.index("--rf-under") + 1])
        by_id = "--match-links" not in opts
        iso_roots = roots if "--isolate" in opts else []
        outs = {}
        failed = False
        for fmt in ("json", "default", "csv", "fdupes"):
            rc, out, err = treegen.fclones(["group"] + roots + opts + ["-f", fmt], cwd=base, env=env)
            ctx.count()
            if rc != 0:
                ctx.violation({"kind": "run_failed"}, "fclones group failed (%d): %s" % (rc, err[-300:].decode("utf-8", "replace")),
                              {"tree": ti, "opts": opts, "format": fmt}, found_input=True)
                failed = True
                break
            outs[fmt] = out
        if failed:
            continue
        ofile = os.path.join(ctx.scratch, "out%d.txt" % ti)
        # the output file already exists and is LONGER than the report (a previous, bigger report)
        with open(ofile, "wb") as f:
            f.write(b"# stale line of an earlier report\n" * 4000)
        rc, out, err = treegen.fclones(["group"] + roots + opts + ["-o", ofile], cwd=base, env=env)
        ctx.count()
        outs["file"] = open(ofile, "rb").read() if rc == 0 and os.path.exists(ofile) else b""
        if rc == 0 and outs["file"] != b"" and b"stale line of an earlier report" in outs["file"]:
            ctx.violation({"kind": "output_file_not_truncated"}, "-o FILE into an existing longer file leaves the stale tail in place",
                          {"tree": ti, "opts": opts}, found_input=True)
        fmt2 = rng.choice(["json", "csv", "fdupes"])
        ofile2 = os.path.join(ctx.scratch, "out%d.%s" % (ti, fmt2))
        with open(ofile2, "wb") as f:
            f.write(b"x" * 200000)
        rc2, _, _ = treegen.fclones(["group"] + roots + opts + ["-f", fmt2, "-o", ofile2], cwd=base, env=env)
        ctx.count()
        if rc2 == 0:
            got2 = open(ofile2, "rb").read()
            same = got2 == outs[fmt2]
            if fmt2 == "json":
                # the JSON header carries the time stamp and the command line of its own run: compare the groups
                try:
                    same = treegen.parse_json_report(got2.decode("utf-8"))[1] == treegen.parse_json_report(outs["json"].decode("utf-8"))[1]
                except Exception:  # noqa  (stale tail => not JSON any more)
                    same = False
            if not same:
                ctx.violation({"kind": "output_file_differs_from_stdout"}, "-f %s -o FILE differs from the same report on stdout" % fmt2,
                              {"tree": ti, "opts": opts, "format": fmt2}, found_input=True)
        try:
            hdr, jgroups = treegen.parse_json_report(outs["json"].decode("utf-8"))
        except Exception as e:  # noqa
            # the JSON report must use the same path encoding (STFU-8) as the other formats and the readers
            ctx.violation({"kind": "json_report_undecodable"}, "the JSON report cannot be decoded (paths are not valid STFU-8?): %r" % (e,),
                          {"tree": "treegen.gen_tree index %d (VERIF_SEED=%d)" % (ti, ctx.seed), "opts": opts,
                           "roots": [r.decode("utf-8", "replace") for r in roots]}, found_input=True)
            continue
        js = hdr.get("stats", {})
        nontrivial = len(jgroups) > 0
        ctx.distinct((ti, tuple(opts)), nontrivial)
        ctx.bump("opts", " ".join(opts) or "default")
        ctx.bump("groups", min(len(jgroups), 10))
        payload = {"tree": "treegen.gen_tree index %d (VERIF_SEED=%d)" % (ti, ctx.seed), "opts": opts,
                   "roots": [r.decode("utf-8", "replace") for r in roots]}
        # --- formats describe the same groups
        tstats, tgroups = parse_text(outs["default"])
        try:
            fstats, fgroups = parse_text(outs["file"]) if outs["file"] else ({}, None)
        except Exception as e:  # noqa
            ctx.violation({"kind": "output_file_unparsable"}, "the -o report cannot be parsed: %r" % (e,), {"tree": ti, "opts": opts}, found_input=True)
            fstats, fgroups = {}, None
        cgroups = parse_csv(outs["csv"])
        dgroups = parse_fdupes(outs["fdupes"])
        jb = [(g["hash"], g["len"], g["files"]) for g in jgroups]
        if [(h, l, p) for h, l, c, p in tgroups] != jb or (fgroups is not None and [(h, l, p) for h, l, c, p in fgroups] != jb) \
                or [(h, l, p) for h, l, c, p in cgroups] != jb or dgroups != [g["files"] for g in jgroups]:
            ctx.violation({"kind": "formats_differ"}, "text/JSON/CSV/fdupes outputs of the same tree describe different groups",
                          dict(payload, json=repr(jb)[:600], text=repr(tgroups)[:600], csv=repr(cgroups)[:600]), found_input=True)
        for h, l, c, p in tgroups + cgroups:
            if c != len(p):
                ctx.violation({"kind": "count_mismatch"}, "group header count %d but %d paths listed" % (c, len(p)),
                              dict(payload, group=h), found_input=True)
        for g in jgroups:
            for p in g["files"]:
                if not p.startswith(b"/"):
                    ctx.violation({"kind": "relative_path"}, "path %r is not absolute" % p, payload, found_input=True)
        # --- header vs body through the model
        ids = {}
        fields = [kind, str(rf), "1" if by_id else "0", str(len(iso_roots))] + [enc_path(r) for r in iso_roots] + [str(len(jgroups))]
        has_links_in_group = False
        for g in jgroups:
            fields += [str(g["len"]), ".".join(str(b) for b in bytes.fromhex(g["hash"])) or "-", str(len(g["files"]))]
            seen = set()
            for p in g["files"]:
                st = os.stat(p)
                ids[p] = (st.st_dev, st.st_ino)
                if ids[p] in seen:
                    has_links_in_group = True
                seen.add(ids[p])
                fields += [enc_path(p), str(st.st_dev), str(st.st_ino)]
        res = core.run_lines(model, [" ".join(fields)])[0]
        if res.startswith("EXN"):
            raise RuntimeError("model driver: " + res)
        nums = res.split("|")[0].split()
        m = dict(groups=int(nums[0]), total_files=int(nums[1]), total_size=int(nums[2]), red_files=int(nums[3]),
                 red_size=int(nums[4]), mis_files=int(nums[5]), mis_size=int(nums[6]))
        fix, allrep, red_spec = nums[7] == "1", nums[8] == "1", int(nums[9])
        jstats = dict(groups=js.get("group_count"), total_files=js.get("total_file_count"), total_size=js.get("total_file_size"),
                      red_files=js.get("redundant_file_count"), red_size=js.get("redundant_file_size"),
                      mis_files=js.get("missing_file_count"), mis_size=js.get("missing_file_size"))
        # python oracle from the property text
        o = dict(groups=len(jgroups), total_files=sum(len(g["files"]) for g in jgroups),
                 total_size=sum(g["len"] * len(g["files"]) for g in jgroups), red_files=0, red_size=0, mis_files=0, mis_size=0)
        for g in jgroups:
            sgs = py_subgroups([(p, ids[p]) for p in g["files"]], iso_roots, by_id)
            if kind == "O":
                r = sum(len(s) for s in sgs[max(rf, 1):])
                o["red_files"] += r
                o["red_size"] += r * g["len"]
                ok = len(sgs) > rf
            else:
                mcount = max(0, rf - len(sgs))
                o["mis_files"] += mcount
                o["mis_size"] += mcount * g["len"]
                ok = len(sgs) < rf
            if not ok:
                ctx.violation({"kind": "group_does_not_satisfy_filter"}, "a reported group has %d replicas, filter %s %d" % (len(sgs), kind, rf),
                              dict(payload, group=[p.decode("utf-8", "replace") for p in g["files"]]), found_input=True)
        if twin_dir is not None:
            for g in jgroups:
                tw = [pth for pth in g["files"] if os.path.dirname(pth) == twin_dir and os.path.basename(pth).startswith(b"caf")]
                if len(tw) >= 2 and tw != sorted(tw):
                    ctx.violation({"kind": "path_order_depends_on_more_than_the_set"},
                                  "paths differing only in non-UTF-8 bytes are listed in %r, not in path order (the order follows inode/arrival order)" % tw,
                                  dict(payload, twins=[repr(x) for x in tw]), found_input=True)
        # direct oracle for the stated path-order clause: paths of one --isolate root stay together, roots in the order given
        if iso_roots:
            def ridx(pth):
                pc = [c for c in pth.split(b"/") if c]
                for i, r in enumerate(iso_roots):
                    rc = [c for c in r.split(b"/") if c]
                    if pc[:len(rc)] == rc:
                        return i
                return len(iso_roots)
            for g in jgroups:
                seq = [ridx(pth) for pth in g["files"]]
                if seq != sorted(seq):
                    ctx.violation({"kind": "isolate_roots_not_contiguous"},
                                  "paths of one --isolate root are not listed together / roots not in the order given: %r" % seq,
                                  dict(payload, group=[x.decode("utf-8", "replace") for x in g["files"]]), found_input=True)
        if jstats != tstats or (fstats and fstats != tstats):
            ctx.violation({"kind": "header_text_vs_json"}, "text and JSON headers disagree: %r vs %r" % (tstats, jstats), payload, found_input=True)
        if jstats != o:
            sig = {"kind": "header_stats_differ_from_body"}
            ctx.violation(sig, "header statistics %r differ from what the body shows %r" % (jstats, o), dict(payload, header=jstats, body=o),
                          found_input=True)
        if jstats != m:
            ctx.violation({"kind": "model_stats_differ"}, "implementation header %r != model stats_of(body) %r" % (jstats, m),
                          dict(payload, header=jstats, model=m, correspondence="ReportModel.stats_of vs write_report"),
                          found_input=(jstats != o))
        if not fix:
            # direct oracle: sizes non-increasing
            lens = [g["len"] for g in jgroups]
            direct = lens != sorted(lens, reverse=True)
            ctx.violation({"kind": "body_not_in_final_order"}, "report body is not a fixpoint of ReportModel.finalize (group/path order)",
                          dict(payload, model_order=res.split("|", 1)[1][:1500], body=repr(jb)[:1500]), found_input=direct)
        if not allrep:
            ctx.violation({"kind": "model_filter_rejects_group"}, "ReportModel.matches_strictly rejects a reported group", payload, found_input=False)
        ctx.sample({"tree": ti, "opts": opts, "groups": len(jgroups), "header": jstats, "model": m})
    huge_files_order_check(ctx)
    output_inside_tree_check(ctx, ctx.pick(12, 120))
