"""C10 — reports round-trip losslessly from `group` to the dedupe commands (engine T).

Proof obligations: coq/Props_C10.v (all byte strings / all well-formed reports / all truncation points).
Correspondence (harness/src/bin/txt.rs against the model extracted from coq/TextModel.v):
  * STFU-8 layer (arg::to_stfu8/from_stfu8, Path::from_escaped_string, Path normalisation): all strings of
    <= 3 (quick) / <= 4 (thorough) symbols over the 20-symbol alphabet, byte for byte, with the direct
    oracle decode(encode b) == b;
  * ReportWriter::write_as_text on random reports (headers with argument vectors / base dirs over the same
    alphabet, groups with troublesome paths, sizes around the unit thresholds): byte for byte;
  * open_report + TextReportReader::read_header + TextReportIterator on the written text (oracle: equals the
    report), on EVERY truncation point of small reports (oracle: a cut strictly inside a group gives Err and
    delivers exactly the complete groups before it — including cuts inside the last path line, the former
    known finding K4, repaired in /repo 2eccdb7), and on randomly mutated reports (model == implementation only);
  * JSON: the strings serde_json carries are compared with the model's STFU-8 encoding, and the JSON reader's
    result with the report (oracle).
The parameters of the model (ByteSize texts, chrono formatting) are taken from the implementation and their
hypotheses (printable ASCII without `*`, `)`, `:`; timestamp text reproduced exactly) are checked on every case.
"""
import json
import os

from .. import core
from . import c17 as t

TXT = t.TXT
field, unfield = t.field, t.unfield


# ---------------------------------------------------------------------------------------------
# generators

LETTERS = [b"a", b"b", b"x", b"0", b"_", b"-", b".."]


def gen_component(rng):
    while True:
        n = 1 + rng.below(3)
        c = b"".join(rng.choice(t.ALPHA + LETTERS) if rng.chance(3, 4) else t.rand_symbol(rng) for _ in range(n))
        c = c.replace(b"/", b"_").replace(b"\0", b"_")
        if c and c != b".":
            return c


def gen_path(rng, maxcomp=3):
    return b"/" + b"/".join(gen_component(rng) for _ in range(1 + rng.below(maxcomp)))


SIZES = [0, 1, 41, 999, 1000, 1023, 1024, 1049, 1050, 6274, 999949, 999950, 1000000, 123456789, 10 ** 12, 2 ** 53, 2 ** 64 - 1]


def gen_size(rng):
    k = rng.below(4)
    if k == 0:
        return rng.choice(SIZES)
    if k == 1:
        return rng.below(2000)
    if k == 2:
        return rng.below(10 ** 7)
    return rng.next() >> rng.below(64)


def gen_ts(rng):
    sign, hh, mm = rng.choice(["+", "-"]), rng.below(14), rng.choice([0, 0, 30, 45])
    if hh == 0 and mm == 0:
        sign = "+"          # chrono prints a zero offset as +0000
    return ("%04d-%02d-%02d %02d:%02d:%02d.%03d %s%02d%02d" % (
        1970 + rng.below(130), 1 + rng.below(12), 1 + rng.below(28), rng.below(24), rng.below(60), rng.below(60),
        rng.below(1000), sign, hh, mm)).encode()


def submillisecond_timestamp_check(ctx, reports):
    """The header records the scan start with sub-millisecond precision in memory; the text format shows milliseconds and the
    reader / the dedupe guard (`modified_before`) rely on the printed value never being LATER than the real one: it is the
    truncation of the time stamp.  The writer is run on time stamps with a sub-millisecond part (1 ns, 0.5 ms, 0.999999 ms): the
    printed text must be the millisecond text the time stamp was built from."""
    for nanos in (1, 500000, 999999):
        env = dict(os.environ, HARNESS_TS_SUBMS_NANOS=str(nanos))
        outs = core.run_lines_parallel(TXT, [w_line(r) for r in reports], env=env)
        for r, o in zip(reports, outs):
            ctx.count()
            ctx.bump("header_timestamp_sub_millisecond_nanos", nanos)
            if o.startswith("EXN"):
                continue
            if (b"# Timestamp: " + r["ts"] + b"\n") not in unfield(o):
                got = [l for l in unfield(o).split(b"\n") if l.startswith(b"# Timestamp:")][:1]
                ctx.violation({"kind": "timestamp_not_truncated"},
                              "a scan start %d ns after %s is printed as %r: later than the real time stamp (the text format must truncate)" % (
                                  nanos, r["ts"].decode(), got), {"report": _jsonable(r), "lines": [w_line(r)], "env": {"HARNESS_TS_SUBMS_NANOS": nanos}},
                              found_input=True)
                return


def gen_report(rng, small=False):
    version = ("%d.%d.%d" % (rng.below(3), rng.below(40), rng.below(12))).encode()
    ncmd = rng.below(3 if small else 6)
    cmd = [t.rand_string(rng, rng.choice([1, 2, 3] if small else [2, 5, 30])) for _ in range(ncmd)]
    # option-like / assignment-like arguments (-name=value, NAME=~/x) with special characters on both sides of the `=`
    for _ in range(rng.below(3)):
        cmd.insert(rng.below(len(cmd) + 1), t.rand_wordlike(rng).replace(b"\0", b"\x01") or b"-")
    if rng.chance(1, 3):
        cmd = [b"fclones", b"group"] + cmd
    base = gen_path(rng, 2 if small else 4)
    ng = rng.below(3 if small else 5)
    groups = []
    for _ in range(ng):
        nf = 1 + rng.below(2 if small else 4)
        h = bytes(rng.below(256) for _ in range(rng.choice([1, 2, 16] if small else [1, 16, 16, 32, 64])))
        groups.append((h, gen_size(rng), [gen_path(rng, 2 if small else 3) for _ in range(nf)]))
    stats = [len(groups), sum(len(g[2]) for g in groups), gen_size(rng), rng.below(100), gen_size(rng), rng.below(5), gen_size(rng)]
    return {"version": version, "ts": gen_ts(rng), "base": base, "cmd": cmd, "stats": stats, "groups": groups}


def report_tokens(r):
    toks = [field(r["version"]), field(r["ts"]), field(r["base"]), "c%d" % len(r["cmd"])] + [field(a) for a in r["cmd"]]
    toks.append("s-" if r["stats"] is None else "s" + ",".join(str(x) for x in r["stats"]))
    toks.append("g%d" % len(r["groups"]))
    for h, ln, files in r["groups"]:
        toks += [field(h), str(ln), "f%d" % len(files)] + [field(p) for p in files]
    return toks


def canonical(r, ngroups=None, end="ok", kind="text"):
    """what the txt protocol prints when this report (or its first ngroups groups) is read back"""
    toks = report_tokens(r)
    cut = toks.index("g%d" % len(r["groups"]), 4 + len(r["cmd"]))
    head = toks[:cut]
    gs = r["groups"] if ngroups is None else r["groups"][:ngroups]
    body = ["g%d" % len(gs)]
    for h, ln, files in gs:
        body += [field(h), str(ln), "f%d" % len(files)] + [field(p) for p in files]
    return kind + " " + " ".join(head + body) + " end=" + end


def sizes_of(r):
    s = set(g[1] for g in r["groups"])
    if r["stats"]:
        s |= {r["stats"][2], r["stats"][4], r["stats"][6]}
    return sorted(s)


def human_tables(reports):
    """ByteSize texts from the implementation (parameter `human` of the model)"""
    lines = ["hs " + " ".join(str(n) for n in sizes_of(r)) if sizes_of(r) else "hs 0" for r in reports]
    outs = core.run_lines_parallel(TXT, lines)
    tables = []
    for o in outs:
        tab = {}
        for tok in o.split():
            n, f = tok.split(":")
            tab[int(n)] = unfield(f)
        tables.append(tab)
    return tables


def w_line(r, table=None, cmd="w"):
    l = cmd + " " + " ".join(report_tokens(r))
    if table is not None:
        l += " | " + " ".join("%d:%s" % (n, field(b)) for n, b in sorted(table.items()))
    return l


def layout(r, text):
    """byte offsets of the parts of the written text: header end, and per group (start, start of last path line, end)"""
    lines = text.split(b"\n")
    # every line of the written text ends with \n; paths contain no raw newline (escaped)
    offs, pos = [], 0
    for ln in lines[:-1]:
        offs.append(pos)
        pos += len(ln) + 1
    nh = 4 + (3 if r["stats"] is not None else 0)
    idx = nh
    groups = []
    for h, ln, files in r["groups"]:
        start = offs[idx] if idx < len(offs) else pos
        last = offs[idx + len(files)] if idx + len(files) < len(offs) else pos
        idx += 1 + len(files)
        end = offs[idx] if idx < len(offs) else pos
        groups.append((start, last, end))
    hdr_end = offs[nh] if nh < len(offs) else pos
    return hdr_end, groups


MUT_BYTES = [b" ", b"\t", b"\r", b"\n", b"#", b"*", b":", b",", b"0", b"9", b"a", b"f", b"g", b"\\", b"x", b"/", b".", b"(", b")",
             b"\xff", b"\xc5", "ż".encode(), " ".encode(), b"B", b"  ", b"    ", b"//", b"/./", b"\\x41", b"\\x00", b"\\u0000e9", b"+"]


def mutate(rng, text, lo):
    """a random edit at offset >= lo"""
    if len(text) <= lo:
        return text + rng.choice(MUT_BYTES)
    i = lo + rng.below(len(text) - lo)
    k = rng.below(4)
    if k == 0:
        return text[:i] + text[i + 1:]
    if k == 1:
        return text[:i] + rng.choice(MUT_BYTES) + text[i:]
    if k == 2:
        return text[:i] + rng.choice(MUT_BYTES) + text[i + 1:]
    j = min(len(text), i + 1 + rng.below(12))
    return text[:i] + text[j:]


# ---------------------------------------------------------------------------------------------

def roundtrip_fails(reports):
    """direct oracle on the implementation alone: write as text, read back, compare"""
    outs = core.run_lines_parallel(TXT, [w_line(r) for r in reports])
    back = core.run_lines_parallel(TXT, ["r " + o for o in outs])
    return [o.startswith("EXN") or b != canonical(r) for r, o, b in zip(reports, outs, back)], outs, back


def run(ctx):
    ctx.rule = ("STFU-8 layer: all strings of <= %d symbols over the 20-symbol alphabet (encode, decode of the encoding, path decode); "
                "reports: %d random reports (0-5 arguments of <= 30 symbols plus 0-2 option-like/assignment-like arguments such as -name=value or NAME=~/x, tiny reports whose argument is every string of <= 3 symbols over {a = : ~ # - SP $ ' /}, base dir and 1-4 paths per group with components over the alphabet "
                "plus random bytes/scalars, '..' components, 0-4 groups, hashes of 1-64 bytes, sizes at the ByteSize unit thresholds up to 2^64-1) "
                "written, read back, as JSON too; reports with groups of 1023/1024/1025/~3000 files; every report also read through a stream delivered in pieces (every split offset of the small reports, 1..64-byte reads, `# Total:` placed 0-9 bytes before the 16 KiB buffer boundary); every truncation point of %d small reports and selected ones of the 1025-file report; %d random edits of report texts. "
                "A case is one command line of the txt protocol; non-trivial = the line carries an escape/quote (backslash in the text) or is a "
                "truncation inside a group; distinct = distinct command line"
                % (ctx.pick(3, 4), ctx.pick(300, 5000), ctx.pick(40, 200), ctx.pick(4000, 100000)))
    ctx.assumptions = ["paths of a report are in std::path normal form (what Path::from produces), NUL-free; arguments non-empty and NUL-free",
                       "ByteSize Display yields non-empty printable ASCII without '*', ')' and ':' (checked on every number used)",
                       "chrono: parse_from_str(format(t, TIMESTAMP_FMT).trim(), TIMESTAMP_FMT) = t for millisecond-precision t (checked on every generated timestamp)",
                       "serde_json transports strings unchanged (checked: JSON strings equal the model's STFU-8 encoding)"]
    ctx.trusted.append("C10: std::path component normalisation, u64 formatting/parsing, hex encode/decode are modelled in coq/TextModel.v and compared "
                       "with the implementation on every run; chrono and bytesize are parameters of the model instantiated with the implementation's own output")
    ctx.use_coq()
    model = core.build_model("T")
    core.build_harness(["txt"])
    rng = ctx.rng
    mismatches = []       # (line, impl, model)
    oracle = []           # (kind, what, payload)

    def compare(lines, impl=None, mlines=None):
        if impl is None:
            impl = core.run_lines_parallel(TXT, lines)
        mod = core.run_lines_parallel(model, mlines or lines)
        for l, i, m in zip(lines, impl, mod):
            ctx.count()
            if i != m or i.startswith("EXN"):
                mismatches.append((l, i, m))
        return impl, mod

    if ctx.replay:
        rp = json.load(open(ctx.replay))
        lines = rp.get("lines", [])
        mlines = rp.get("model_lines", lines)
        impl, mod = compare(lines, None, mlines)
        for l, i, m in zip(lines, impl, mod):
            core.log("replay: %s\n  impl : %s\n  model: %s" % (l[:300], i[:600], m[:600]))
        for cl in rp.get("chunk_lines", []):
            got = core.run_lines(TXT, [cl])[0]
            core.log("replay: %s...\n  impl : %s" % (cl[:60], got[:600]))
            if got != rp.get("expected"):
                oracle.append((rp.get("signature", {}).get("kind", "chunked_read_roundtrip"),
                               "read through `%s` gives %s" % (cl.split()[1], got[:300]), dict(rp)))
        if "report" in rp:
            r = rp["report"]
            r = {"version": bytes(r["version"]), "ts": bytes(r["ts"]), "base": bytes(r["base"]), "cmd": [bytes(a) for a in r["cmd"]],
                 "stats": r["stats"], "groups": [(bytes(g[0]), g[1], [bytes(p) for p in g[2]]) for g in r["groups"]]}
            fails, outs, back = roundtrip_fails([r])
            if fails[0]:
                oracle.append(("report_roundtrip", "report does not read back as written: %s" % back[0][:300], {"report": rp["report"], "lines": [w_line(r)]}))
            if "cut" in rp:
                text = unfield(outs[0])
                res = core.run_lines(TXT, ["r " + field(text[:rp["cut"]])])[0]
                core.log("replay cut %d -> %s" % (rp["cut"], res[:400]))
                exp = canonical(r, rp.get("groups_before", 0), "err")
                if res != exp:
                    kind = rp.get("signature", {}).get("kind", "truncated_group_accepted")
                    oracle.append((kind, "cut at %d read as %s" % (rp["cut"], res[:300]), dict(rp)))
    else:
        # ---- 1. STFU-8 layer, bounded exhaustive
        strs = [b""] + t.strings_upto(ctx.pick(3, 4))
        elines = ["e " + field(s) for s in strs]
        eimpl, _ = compare(elines)
        dlines = ["d " + e for e in eimpl]
        dimpl, _ = compare(dlines)
        for s, e, d in zip(strs, eimpl, dimpl):
            ctx.distinct(("e", s), b"\\" in unfield(e))
            ctx.bump("stfu8_len", len(t.symbols_of(s)))
            if d != "ok " + field(s):
                oracle.append(("stfu8_roundtrip", "from_stfu8(to_stfu8(%r)) = %s" % (s, d), {"bytes": list(s), "lines": ["e " + field(s), "d " + e]}))
        # path layer: normalisation and decode of encoded paths with troublesome components
        plines = []
        for s in t.strings_upto(2, [b"/", b".", b"a", b" ", b"..", b"\n", "ż".encode(), b"\xff"], nonempty=False):
            plines.append("pn " + field(s))
        for s in strs[:ctx.pick(3000, 20000)]:
            plines.append("pd " + field(b"/" + s.replace(b"/", b"_")))
        for _ in range(ctx.pick(2000, 40000)):
            plines.append("pd " + field(t.rand_str(rng, rng.choice([3, 6, 12]), t.STFU_ALPHA + [b"/", b"//", b"/./", b"\\x00", b"\\x2F"])))
        compare(plines)
        for l in plines:
            ctx.bump("path_cmd", l.split()[0])

        # ---- 2. reports: write, read back
        reports = [gen_report(rng, small=(i % 3 == 0)) for i in range(ctx.pick(300, 5000))]
        # tiny reports: one group with one path /<s>, the argument <s> and the base dir /<s>, for every string s of <= 2 symbols
        tiny0 = gen_report(rng, small=True)
        for sidx, sx in enumerate(t.strings_upto(2) + t.strings_upto(3, t.ALPHA2)):
            comp = sx.replace(b"/", b"_")
            if comp == b".":
                continue
            r1 = dict(tiny0)
            r1["groups"] = [(b"\x49\x16", 41, [b"/" + comp])]
            r1["cmd"] = [sx]
            r1["base"] = b"/" + comp
            r1["stats"] = [1, 1, 41, 0, 0, 0, 0]
            reports.append(r1)
        tables = human_tables(reports)
        for tab in tables:
            for n, b in tab.items():
                if not b or any(c < 32 or c > 126 or c in b"*):" for c in b):
                    oracle.append(("hypothesis_human", "ByteSize text of %d is %r" % (n, b), {"n": n, "text": list(b), "lines": ["hs %d" % n]}))
        submillisecond_timestamp_check(ctx, reports[:ctx.pick(60, 400)])
        wl = [w_line(r) for r in reports]
        wimpl, _ = compare(wl, None, [w_line(r, tab) for r, tab in zip(reports, tables)])
        rl = ["r " + o for o in wimpl]
        rimpl, _ = compare(rl)
        for r, o, b in zip(reports, wimpl, rimpl):
            ctx.distinct(("w", o), "92" in o.split("."))
            ctx.bump("groups_per_report", len(r["groups"]))
            ctx.bump("args_per_command", len(r["cmd"]))
            for g in r["groups"]:
                ctx.bump("files_per_group", len(g[2]))
                ctx.bump("size_class", "<1000" if g[1] < 1000 else "<10^6" if g[1] < 10 ** 6 else "<2^53" if g[1] < 2 ** 53 else ">=2^53")
                for p in g[2]:
                    ctx.bump("path_kind", "plain" if all(32 < c < 127 and c != 92 for c in p) else
                             "invalid_utf8" if t.classify(p, []) == "dollar" and not _is_utf8(p) else "needs_escape_or_ws")
            if o.startswith("EXN") or b != canonical(r):
                oracle.append(("report_roundtrip", "report does not read back as written: got %s, expected %s" % (b[:300], canonical(r)[:300]),
                               {"report": _jsonable(r), "lines": [w_line(r), "r " + o]}))
            if len(ctx.samples) < 3 and r["groups"]:
                ctx.sample({"report_text": unfield(o).decode("utf-8", "replace")[:600]})
            # the timestamp hypothesis: the writer printed the timestamp text we parsed
            if not o.startswith("EXN") and (b"# Timestamp: " + r["ts"] + b"\n") not in unfield(o):
                oracle.append(("hypothesis_timestamp", "timestamp %r is not printed as given" % r["ts"], {"report": _jsonable(r), "lines": [w_line(r)]}))

        # ---- 2b. groups with very many files (around the 1024 preallocation bound of read_paths, and ~3000), both formats
        bigs = []
        for nf in [1023, 1024, 1025, 2500 + rng.below(1000)] + ([4096, 4097, 10000] if not ctx.quick else []):
            rb = gen_report(rng, small=True)
            big = (bytes(rng.below(256) for _ in range(16)), gen_size(rng),
                   [b"/d/" + (b"%d" % i) + (rng.choice([b"", b"", b"", b" ", b"\n", b"\xff", "ż".encode()])) for i in range(nf)])
            before = [(b"\x01", 1, [b"/b"])] if rng.chance(1, 2) else []
            rb["groups"] = before + [big, (b"\x02\x03", 7, [b"/after/x", b"/after/y "])]
            rb["stats"][0] = len(rb["groups"])
            rb["stats"][1] = sum(len(g[2]) for g in rb["groups"])
            bigs.append(rb)
        btabs = human_tables(bigs)
        bw, _ = compare([w_line(r) for r in bigs], None, [w_line(r, tab) for r, tab in zip(bigs, btabs)])
        bback, _ = compare(["r " + o for o in bw])
        bj = core.run_lines_parallel(TXT, [w_line(r, cmd="wj") for r in bigs])
        bjback = core.run_lines_parallel(TXT, ["r " + o for o in bj])
        for r, o, b, jo, jb in zip(bigs, bw, bback, bj, bjback):
            nf = max(len(g[2]) for g in r["groups"])
            ctx.count(2)
            ctx.bump("files_in_largest_group", nf)
            ctx.distinct(("big", nf, o[:200]), True)
            if o.startswith("EXN") or b != canonical(r):
                exp = canonical(r)
                d = next((i for i, (x, y) in enumerate(zip(b.split(), exp.split())) if x != y), min(len(b.split()), len(exp.split())))
                oracle.append(("report_roundtrip", "report with a group of %d files does not read back as written: result differs from token %d on: got ...%s, "
                               "expected ...%s" % (nf, d, " ".join(b.split()[d:d + 6])[:200], " ".join(exp.split()[d:d + 6])[:200]),
                               {"report": _jsonable(r), "files_in_largest_group": nf, "lines": [w_line(r)]}))
            if jo.startswith("EXN") or jb != canonical(r, kind="jsonread"):
                oracle.append(("json_roundtrip", "JSON report with a group of %d files does not read back as written" % nf,
                               {"report": _jsonable(r), "files_in_largest_group": nf, "lines": [w_line(r, cmd="wj")]}))

        # ---- 3. every truncation point of small reports; selected truncation points of the 1025-file report
        smalls = [gen_report(rng, small=True) for _ in range(ctx.pick(40, 200))]
        smalls = [r for r in smalls if r["groups"]] + [gen_report(rng, small=True)]
        stexts = [unfield(o) for o in core.run_lines_parallel(TXT, [w_line(r) for r in smalls])]
        cuts, clines = [], []
        for ri, (r, text) in enumerate(zip(smalls, stexts)):
            for k in range(len(text) + 1):
                cuts.append((ri, k))
                clines.append("r " + field(text[:k]))
        n_small = len(smalls)
        for rb, o in list(zip(bigs, bw))[2:3 if ctx.quick else 4]:
            if o.startswith("EXN"):
                continue
            text = unfield(o)
            hdr_end, gl = layout(rb, text)
            start, last, end = max(gl, key=lambda g: g[2] - g[0])
            offs = [i + 1 for i, c in enumerate(text) if c == 10 and start <= i < end]      # line starts inside the big group
            ks = set()
            for li in (1, 2, 1022, 1023, 1024, 1025, 1026, len(offs) - 2, len(offs) - 1):
                if 0 <= li < len(offs):
                    ks |= {offs[li] - 1, offs[li], offs[li] + 1, offs[li] + 5}
            ks |= {start + 1, end - 1, end, len(text) - 1, len(text)}
            ks |= {start + 1 + rng.below(end - start - 1) for _ in range(ctx.pick(12, 60))}
            smalls.append(rb)
            stexts.append(text)
            for k in sorted(x for x in ks if 0 <= x <= len(text)):
                cuts.append((len(smalls) - 1, k))
                clines.append("r " + field(text[:k]))
        cimpl, _ = compare(clines)
        k4 = 0
        for (ri, k), res in zip(cuts, cimpl):
            r, text = smalls[ri], stexts[ri]
            hdr_end, gl = layout(r, text)
            cls = "header" if k < hdr_end else "boundary"
            for gi, (start, last, end) in enumerate(gl):
                if start < k < end:
                    cls = "group_header_line" if k <= start + text[start:].index(b"\n") else \
                          ("last_path_line" if k > last else "path_lines")
                    before = gi
            ctx.bump("cut_class", cls)
            ctx.bump("cut_result", res.split()[0] + ("/" + res.rsplit("end=", 1)[1] if "end=" in res else ""))
            ctx.distinct(("cut", ri, k), cls not in ("header", "boundary"))
            if cls in ("group_header_line", "path_lines", "last_path_line"):
                exp = canonical(r, before, "err")
                if res != exp:
                    payload = {"report": _jsonable(r), "cut": k, "groups_before": before, "lines": ["r " + field(text[:k])],
                               "read_as": res, "text_prefix_tail": text[max(0, k - 60):k].decode("utf-8", "replace"),
                               "replay_cmd": "echo 'r %s' | %s" % (field(text[:k]), TXT)}
                    # K4 (cut inside the last path line accepted) was repaired in /repo 2eccdb7: its class is an ordinary
                    # violation kind now, reported with the concrete cut
                    kind = "truncated_last_path_line" if cls == "last_path_line" else "truncated_group_accepted"
                    if cls == "last_path_line":
                        k4 += 1
                    oracle.append((kind, "cut at byte %d (%s) is read as %s instead of an error after %d groups"
                                   % (k, cls, res[-300:], before), payload))
            elif cls == "boundary":
                nb = sum(1 for (_, _, end) in gl if end <= k)
                if res != canonical(r, nb, "ok"):
                    oracle.append(("boundary_cut", "report cut at a group boundary (byte %d) is read as %s" % (k, res[-300:]),
                                   {"report": _jsonable(r), "cut": k, "lines": ["r " + field(text[:k])]}))
        ctx.extra["last_path_line_cuts_accepted"] = k4

        # ---- 4. JSON
        jr = reports[:ctx.pick(150, 2000)]
        jimpl = core.run_lines_parallel(TXT, [w_line(r, cmd="wj") for r in jr])
        jback = core.run_lines_parallel(TXT, ["r " + o for o in jimpl])
        elines, expect = [], []
        for r, o, b in zip(jr, jimpl, jback):
            ctx.count()
            ctx.bump("format", "json")
            if o.startswith("EXN"):
                mismatches.append((w_line(r, cmd="wj"), o, "json expected"))
                continue
            if b != canonical(r, kind="jsonread"):
                oracle.append(("json_roundtrip", "JSON report does not read back as written: got %s expected %s" % (b[:300], canonical(r, kind="jsonread")[:300]),
                               {"report": _jsonable(r), "lines": [w_line(r, cmd="wj")]}))
            try:
                doc = json.loads(unfield(o).decode("utf-8"))
                pairs = [(r["base"], doc["header"]["base_dir"])] + list(zip(r["cmd"], doc["header"]["command"]))
                for g, dg in zip(r["groups"], doc["groups"]):
                    pairs += list(zip(g[2], dg["files"]))
                    if dg["file_hash"] != g[0].hex() or dg["file_len"] != g[1]:
                        oracle.append(("json_fields", "hash/len differ in JSON", {"report": _jsonable(r), "lines": [w_line(r, cmd="wj")]}))
                for raw, js in pairs:
                    elines.append("e " + field(raw))
                    expect.append(field(js.encode("utf-8")))
            except Exception as e:  # noqa
                oracle.append(("json_parse", "JSON output is not parseable: %r" % (e,), {"report": _jsonable(r), "lines": [w_line(r, cmd="wj")]}))
        if elines:
            mod = core.run_lines_parallel(model, elines)
            for l, m, x in zip(elines, mod, expect):
                ctx.count()
                if m != x:
                    mismatches.append((l + "   (string inside the JSON report)", x, m))

        # ---- 4b. the byte stream delivered in pieces: the round trip must not depend on how the bytes arrive
        #      (short reads on a pipe, BufReader boundaries).  Model-free: the result must equal the report.
        klines, kexp, kinfo = [], [], []

        def add_chunked(r, text, mode, kind="text"):
            klines.append("rk %s %s" % (mode, field(text)))
            kexp.append(canonical(r, kind=kind))
            kinfo.append((r, mode, kind))
        for r, text in list(zip(smalls, stexts))[:n_small]:
            for off in range(1, len(text)):
                add_chunked(r, text, "s%d" % off)
            for n in (1, 2, 7):
                add_chunked(r, text, "k%d" % n)
        for r, o in list(zip(reports, wimpl))[:ctx.pick(120, 1500)]:
            if not o.startswith("EXN"):
                for n in (1, 3, 5, 13, 64):
                    add_chunked(r, unfield(o), "k%d" % n)
        for r, o in list(zip(jr, jimpl))[:ctx.pick(25, 300)]:
            if not o.startswith("EXN"):
                for n in (1, 7):
                    add_chunked(r, unfield(o), "k%d" % n, kind="jsonread")
        # a long command line that puts the start of the `# Total:` line d bytes before the 16 KiB buffer of open_report
        for rep in range(ctx.pick(2, 10)):
            r0 = gen_report(rng, small=True)
            r0["cmd"] = [b"fclones", b"group", b"x"]
            t0 = unfield(core.run_lines(TXT, [w_line(r0)])[0])
            o0 = t0.index(b"# Total:")
            for d in range(0, 10):
                r1 = dict(r0)
                r1["cmd"] = [b"fclones", b"group", b"x" * (1 + 16384 - d - o0)]
                t1 = unfield(core.run_lines(TXT, [w_line(r1)])[0])
                if t1.index(b"# Total:") != 16384 - d:
                    raise RuntimeError("padding did not place the statistics line at the buffer boundary")
                add_chunked(r1, t1, "k1000000")          # plain reads: only the BufReader boundary matters
                add_chunked(r1, t1, "s%d" % (16384 - d + 3))
        kgot = core.run_lines_parallel(TXT, klines)
        for l, g, e, (r, mode, kind) in zip(klines, kgot, kexp, kinfo):
            ctx.count()
            ctx.bump("chunking", "split_at_offset" if mode.startswith("s") else "reads_of_%s_bytes" % ("1" if mode == "k1" else "2-64" if int(mode[1:]) <= 64 else "unbounded"))
            if g != e:
                d = next((i for i, (x, y) in enumerate(zip(g.split(), e.split())) if x != y), 0)
                oracle.append(("chunked_read_roundtrip", "the report read through a stream delivered as `%s` (k<n>: reads of at most n bytes, s<off>: one short "
                               "read ending at byte <off>) differs from the report written: got ...%s, expected ...%s"
                               % (mode, " ".join(g.split()[d:d + 4])[:160], " ".join(e.split()[d:d + 4])[:160]),
                               {"report": _jsonable(r), "chunking": mode, "chunk_lines": [l], "expected": e, "lines": [],
                                "text_around_split": (unfield(l.split()[2])[max(0, int(mode[1:]) - 30):int(mode[1:]) + 10].decode("utf-8", "replace")
                                                      if mode.startswith("s") else None),
                                "replay_cmd": "echo '%s ...' | %s" % (l[:40], TXT)}))

        # ---- 5. random edits (model == implementation on malformed input)
        mlines = []
        base_texts = [(r, unfield(o)) for r, o in zip(reports[:400], wimpl[:400]) if not o.startswith("EXN")]
        for _ in range(ctx.pick(4000, 100000)):
            r, text = rng.choice(base_texts)
            ts_end = text.index(b"\n", text.index(b"\n") + 1) + 1     # keep the version and timestamp lines intact
            x = text
            for _ in range(1 + rng.below(2)):
                x = mutate(rng, x, ts_end)
            mlines.append("r " + field(x))
        mimpl, _ = compare(mlines)
        for res in mimpl:
            ctx.bump("mutant_result", res.split()[0] + ("/" + res.rsplit("end=", 1)[1] if "end=" in res else ""))

    # ---- report
    oracle.sort(key=lambda o: len(json.dumps(o[2], default=str)))      # smallest failing case of each kind first
    seen_kinds = set()
    for kind, what, payload in oracle:
        if kind in seen_kinds:
            continue
        seen_kinds.add(kind)
        n = sum(1 for o in oracle if o[0] == kind)
        ctx.violation({"kind": kind}, "%s (%d cases)" % (what, n), payload, found_input=not kind.startswith("hypothesis"))
    if mismatches:
        have_input = any(v[3] for v in ctx.violations)
        line, i, m = mismatches[0]
        payload = {"lines": [x[0].split("   ")[0] for x in mismatches[:10]], "impl": i[:2000], "model": m[:2000], "disagreements": len(mismatches),
                   "correspondence": "report.rs / path.rs / stfu8 as compiled from the repository vs coq/TextModel.v (line protocol of harness/src/bin/txt.rs)",
                   "replay_cmd": "echo '<line>' | %s ; echo '<line>' | %s" % (TXT, model)}
        if not have_input and not ctx.replay:
            # neighbourhood: single-path reports over the alphabet, the roundtrip oracle on the implementation alone
            nb = []
            r0 = gen_report(ctx.rng.fork(), small=True)
            for s in t.strings_upto(2):
                comp = s.replace(b"/", b"_")
                if comp in (b".", b""):
                    continue
                r1 = dict(r0)
                r1["groups"] = [(b"\x49\x16", 41, [b"/" + comp])]
                r1["cmd"] = [s]
                r1["base"] = b"/" + comp
                r1["stats"] = [1, 1, 41, 0, 0, 0, 0]
                nb.append(r1)
            fails, outs, back = roundtrip_fails(nb)
            bad = [(r1, b) for r1, f, b in zip(nb, fails, back) if f]
            if bad:
                r1, b = bad[0]
                ctx.violation({"kind": "report_roundtrip"}, "model and implementation disagree (%s...: impl %s, model %s); nearby failing input: report with "
                              "path %r reads back as %s" % (line[:80], i[:200], m[:200], r1["groups"][0][2][0], b[:300]),
                              dict(payload, report=_jsonable(r1), lines=[w_line(r1)] + payload["lines"]), found_input=True)
                have_input = True
        if not have_input:
            ctx.violation({"kind": "model_mismatch", "cmd": line.split(" ")[0]},
                          "model and implementation disagree on `%s...`: impl %s, model %s (%d disagreements); no report in the neighbourhood fails to round-trip"
                          % (line[:120], i[:300], m[:300], len(mismatches)), payload, found_input=False)
        else:
            core.log("model/implementation disagreement on %d cases (first: %s impl=%s model=%s)" % (len(mismatches), line[:200], i[:300], m[:300]))
    ctx.extra["exhaustive"] = False


def _is_utf8(b):
    try:
        b.decode("utf-8")
        return True
    except UnicodeDecodeError:
        return False


def _jsonable(r):
    return {"version": list(r["version"]), "ts": list(r["ts"]), "base": list(r["base"]), "cmd": [list(a) for a in r["cmd"]],
            "stats": r["stats"], "groups": [[list(g[0]), g[1], [list(p) for p in g[2]]] for g in r["groups"]]}
