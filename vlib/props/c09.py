"""C09 — the scan selects exactly the files the options describe (engine W).

Proof obligations: coq/Props_C09.v over the executable model coq/WalkModel.v (a task pool with an
explicit scheduler; abstract selector functions; ignore files as an oracle).

Correspondence (every run):
  * random trees are created on the real file system (nesting 0..6, hidden files/dirs, ignore files,
    file/directory symlinks relative/absolute/dangling/cyclic/chained, names with regex metacharacters
    and non-ASCII text, sizes around --min/--max, optionally a sub tree on another device under
    /dev/shm), with random option sets, roots (relative / absolute / overlapping / repeated / dotted /
    links / missing) and working directories;
  * the tree is read back from the file system (lstat/readlink/scandir in inode order) and given to the
    extracted model together with the booleans of the REAL PathSelector on every path;
  * harness/src/bin/walk.rs runs the real walk.rs exactly as group.rs scan_files does:
      - on a 1-thread rayon pool, where the task order is LIFO: must equal the model under the LIFO
        scheduler exactly (multiset of reported paths, before and after the size filter);
      - on a 4-thread pool: must equal the model when the model's result is the same under several
        schedulers, otherwise must stay inside the reference set;
  * the binary `fclones group ... --rf-over 0 -f json` (cwd varied, with and without -t 1): the union
    of the listed paths must equal the deduplicated model result.
Direct oracle: an independent Python reference walk written from the option documentation
(README "Filtering input files", `fclones group --help`), evaluated on the real file system.
It decides whether a disagreement comes with a failing input and it exposes the known findings.
"""
import json
import os
import shutil
import stat as st_mod

from .. import core

WALK = os.path.join(core.BIN, "walk")
SHM = "/dev/shm"

FILE_NAMES = ["a", "b", "B", "f1", "a-1", "a.1", "c+", "d(", "e[", "ż", "x.log", "y.tmp", "bar", "ba",
              "foo", ".h", ".hf", "barn", "z.LOG", "+(x)", "{a,b}", "É.txt", "Ż"]
DIR_NAMES = ["d", "D", "a-1", "a.1", "c+", "d(", "e[", "ż", "bar", "ba", "b", "foo", ".hd", "sub", "barn",
             "+(x)", "@(y)", "[z]", "{a,b}", "?(q)", "ÄRGER", "Ż", "Éa"]
UPPER_NAMES = ["ÄRGER", "Ż", "ÉTÉ", "ŻÓŁW", "Äb", "xÉ"]
META_NAMES = ["+(x)", "@(y)", "[z]", "{a,b}", "?(q)", "*(s)", "+(a|b)", "@(d)x"]
LINK_NAMES = ["l", "l2", "lk-1", ".hl", "lż", "m"]
TOP_NAMES = ["top", "t-ż.1", "r(1", ".htop", "t+[x", "+(x)", "@(y)", "[z]", "{a,b}", "ÄRGER", "Żż"]
SIZES = [0, 1, 2, 3, 5, 9]
# literals usable in ignore files: no gitignore glob syntax ('[' would make the line invalid)
IGN_DIRS = [n for n in DIR_NAMES[:12] if not any(ch in n for ch in "[]{}*?!#\\")]
IGN_LITERALS = [n for n in FILE_NAMES[:14] + DIR_NAMES[:12] if not any(ch in n for ch in "[]{}*?!#\\")]


# ------------------------------------------------------------------------------------------------
# tree specification (pure data, replayable)

def gen_tree(rng, want_ignore, want_links, want_shm):
    """spec: {"top": name, "entries": [[relpath, kind, arg]...]} in creation order;
    kind F(len) D L(target text) O(fifo) I(ignore file, arg = list of patterns)."""
    top = rng.choice(TOP_NAMES) if rng.chance(1, 3) else "top"
    entries = []
    dirs = [""]
    files = []
    maxdepth = rng.choice([0, 1, 2, 3, 3, 4, 4, 5, 6, 6])

    def fill(d, depth):
        n = 1 + rng.below(4) if depth else 2 + rng.below(4)
        used = set()
        for _ in range(n):
            k = rng.below(10)
            if (k < 4 or (depth < maxdepth - 2 and not used)) and depth < maxdepth and len(dirs) < 14:
                name = rng.choice(DIR_NAMES)
                if name in used:
                    continue
                used.add(name)
                p = os.path.join(d, name) if d else name
                entries.append([p, "D", None])
                dirs.append(p)
                fill(p, depth + 1)
            elif k == 9 and rng.chance(1, 4):
                name = "fifo"
                if name in used:
                    continue
                used.add(name)
                entries.append([os.path.join(d, name) if d else name, "O", None])
            else:
                name = rng.choice(FILE_NAMES)
                if name in used:
                    continue
                used.add(name)
                p = os.path.join(d, name) if d else name
                entries.append([p, "F", rng.choice(SIZES)])
                files.append(p)
        return used

    fill("", 0)
    names_in = {}
    for p, k, a in entries:
        names_in.setdefault(os.path.dirname(p), set()).add(os.path.basename(p))

    if want_ignore:
        for d in dirs:
            if rng.chance(1, 3):
                pats = []
                for _ in range(1 + rng.below(2)):
                    k = rng.below(4)
                    if k == 0:
                        pats.append(rng.choice(["*.log", "*.tmp", "*.1"]))
                    elif k == 1:
                        pats.append(rng.choice(IGN_DIRS) + "/")
                    else:
                        pats.append(rng.choice(IGN_LITERALS))
                fname = rng.choice([".gitignore", ".fdignore"])
                if rng.chance(1, 3):
                    # the ignore file is a SYMBOLIC LINK to a regular file (a shared rules file): it is honoured like any other
                    pats = ["\x00LINK"] + pats
                entries.append([os.path.join(d, fname) if d else fname, "I", pats])
                names_in.setdefault(d, set()).add(fname)
                if rng.chance(1, 6):
                    other = ".fdignore" if fname == ".gitignore" else ".gitignore"
                    entries.append([os.path.join(d, other) if d else other, "I", [rng.choice(IGN_LITERALS)]])
                    names_in[d].add(other)

    shm = None
    if want_shm:
        shm = {"entries": [["f", "F", rng.choice(SIZES)], ["sd", "D", None], ["sd/g", "F", rng.choice(SIZES)],
                           ["sd/.hs", "F", 2]]}

    if want_links:
        nlinks = 1 + rng.below(5)
        for _ in range(nlinks):
            d = rng.choice(dirs)
            name = rng.choice(LINK_NAMES)
            if want_ignore and rng.chance(1, 4):
                name = rng.choice(IGN_DIRS)          # a link whose name a directory-only rule `name/` of an ignore file may list
            if name in names_in.get(d, set()):
                continue
            names_in.setdefault(d, set()).add(name)
            lp = os.path.join(d, name) if d else name
            k = rng.below(12)
            absolute = rng.chance(1, 3)
            if k < 3 and files:
                tgt = ("T", rng.choice(files), absolute)
            elif k < 6:
                tgt = ("T", rng.choice(dirs), absolute)            # may be an ancestor: a cycle
            elif k == 6:
                tgt = ("R", rng.choice(["nowhere", "../nowhere", "/nonexistent/x"]), False)   # dangling
            elif k == 7:
                tgt = ("R", name, False)                            # points to itself
            elif k == 8:
                others = [e[0] for e in entries if e[1] == "L"]
                tgt = ("T", rng.choice(others), absolute) if others else ("R", "nowhere", False)
            elif k == 9 and shm is not None:
                tgt = ("S", rng.choice(["", "sd", "f"]), True)
            elif k == 10:
                tgt = ("R", ".", False)
            else:
                tgt = ("T", rng.choice(dirs + files), absolute)
            entries.append([lp, "L", list(tgt)])
            if want_ignore and name in IGN_DIRS and rng.chance(2, 3) and not ({".gitignore", ".fdignore"} & names_in.get(d, set())):
                # the directory-only rule `name/` next to a LINK of that name: a link is not a directory for the ignore rules
                fname = rng.choice([".gitignore", ".fdignore"])
                entries.append([os.path.join(d, fname) if d else fname, "I", [name + "/"]])
                names_in.setdefault(d, set()).add(fname)
        if rng.chance(1, 5):
            d = rng.choice(dirs)
            if not ({"m1", "m2"} & names_in.get(d, set())):
                entries.append([os.path.join(d, "m1") if d else "m1", "L", ["R", "m2", False]])
                entries.append([os.path.join(d, "m2") if d else "m2", "L", ["R", "m1", False]])
    return {"top": top, "entries": entries, "shm": shm}


def gen_directed(rng, which):
    """small scenarios around the known findings N1 / N2 / N5 (randomised names and padding);
    returns (spec, options overrides, roots relative to top, cwd relative to top)"""
    nice = [n for n in DIR_NAMES if not n.startswith(".") and not any(ch in n for ch in "[]{}*?!#()@+\\")]
    d, a = rng.choice(nice), rng.choice(nice)
    while a == d:
        a = rng.choice(nice)
    f = rng.choice([n for n in FILE_NAMES if not n.startswith(".") and not any(ch in n for ch in "{}*?")])
    while f in (d, a, "g", "h", "o", "x", "pad", "deep", "top.f"):
        f = rng.choice(["f1", "B", "x.log", "a-1"])
    first, second = (d, a) if rng.chance(3, 4) else (a, d)      # creation order decides the LIFO order
    entries = [[first, "D", None], [second, "D", None], [d + "/" + f, "F", 2], [d + "/g", "F", 3],
               [a + "/l", "L", ["T", d, rng.chance(1, 3)]]]
    if rng.chance(1, 2):
        entries.append([a + "/pad", "F", 2])
    o = {"follow": True, "symlinks": False, "hidden": False, "no_ignore": True, "one_fs": False, "depth": None,
         "min": 1, "max": None, "names": [], "paths": [], "excludes": [], "regex": False, "icase": False, "_patkind": "none"}
    roots, cwd = [""], ""
    if which == "n1_depth":
        o["depth"] = 2
    elif which == "n1_roots":
        o["depth"] = 1
        roots = [d, ""] if rng.chance(1, 2) else ["", d]
    elif which == "n1_ignore":
        o["no_ignore"] = False
        entries.append([a + "/" + rng.choice([".gitignore", ".fdignore"]), "I", [d]])
    elif which == "n5":
        o["no_ignore"] = False
        entries.append([a + "/.gitignore", "I", [rng.choice([d, f] if "[" not in f else [d])]])
        roots = [a]
    elif which == "n2":
        o["paths"] = ["TOP:" + d + "/**"]
        o["_patkind"] = "path_abs"
        roots = [a]
    elif which in ("ov_depth", "ov_ignore", "ov_repeat"):
        # overlapping / repeated input paths without link following: the inner input path must be scanned
        # on its own (its own depth count, its own empty ignore stack)
        o["follow"] = False
        entries = [[a, "D", None], [a + "/" + d, "D", None], [a + "/" + d + "/" + f, "F", 2], [a + "/" + d + "/g", "F", 3],
                   [a + "/" + d + "/deep", "D", None], [a + "/" + d + "/deep/h", "F", 2], [a + "/top.f", "F", 2]]
        inner = rng.choice([a + "/" + d, a + "/" + d + "/" + f, a + "/" + d + "/deep"])
        if which == "ov_depth":
            o["depth"] = rng.choice([0, 1, 1, 2])
            roots = [a, inner] if rng.chance(1, 2) else [inner, a]
        elif which == "ov_ignore":
            o["no_ignore"] = False
            entries.append([a + "/" + rng.choice([".gitignore", ".fdignore"]), "I",
                            [rng.choice([d + "/", d, f if not any(ch in f for ch in "[]{}*?!#") else d])]])
            roots = [a, inner] if rng.chance(1, 2) else [inner, a]
        else:
            o["depth"] = rng.choice([None, 1, 2])
            roots = [a, a, "./" + a] if rng.chance(1, 2) else [inner, a + "/../" + inner, inner]
        if rng.chance(1, 3):
            cwd = a
    elif which == "n7":
        # a FILE or LINK handed to visit_path (input path, link target) and an --exclude pattern for the paths
        # below it / for the link's own path: the directory filter looks at the parent, a link is judged
        # through what it points to
        shape = rng.below(4)
        entries = [[a, "D", None], [a + "/" + f, "F", 2], [a + "/g", "F", 3], [d, "D", None],
                   [d + "/l", "L", ["T", a + "/" + f, False]], [d + "/ld", "L", ["T", a, rng.chance(1, 2)]]]
        o["_patkind"] = "exclude_children_of_file"
        if shape == 0:
            o["follow"] = rng.chance(1, 2)
            o["excludes"] = ["TOPLIT:" + gesc(a + "/" + f) + "/**"]
            roots = [a + "/" + f] if not o["follow"] or rng.chance(1, 2) else [d]
        elif shape == 1:        # `group t/L -S --exclude t/L/**`, L -> file
            o["follow"] = False
            o["symlinks"] = True
            o["excludes"] = ["TOPLIT:" + gesc(d + "/l") + "/**"]
            roots = [d + "/l"]
        elif shape == 2:        # -L, a link to a directory whose own path is matched by an exclude pattern
            o["follow"] = True
            o["excludes"] = ["TOPLIT:" + gesc(d + "/ld") + rng.choice(["", "/**"])]
            roots = [d] if rng.chance(1, 2) else [d + "/ld"]
        else:                   # -L -S, link to a file given as input path, exclude for the paths below the link
            o["follow"] = True
            o["symlinks"] = rng.chance(1, 2)
            o["excludes"] = ["TOPLIT:" + gesc(d + "/l") + "/**"]
            roots = [d + "/l"]
        return {"top": "top", "entries": entries, "shm": None}, o, roots, ""
    elif which == "link_file":
        # -L and links whose (final) target is a file: the target must go through the same tests as any
        # other visited path (it may be another link: a chain; it may be hidden; it may be ignored)
        shape = rng.below(4)
        o["follow"] = True
        o["symlinks"] = False
        if shape == 0:      # chain with the intermediate link outside the scanned input path
            entries = [["in", "D", None], ["out", "D", None], ["out/real.txt", "F", 2],
                       ["out/l2", "L", ["R", "real.txt", False]], ["in/l1", "L", ["T", "out/l2", rng.chance(1, 2)]],
                       ["in/" + f, "F", 3]]
            roots = ["in"]
        elif shape == 1:    # chain inside the scanned tree, three links long
            entries = [["in", "D", None], ["in/real.txt", "F", 2], ["in/l3", "L", ["R", "real.txt", False]],
                       ["in/l2", "L", ["R", "l3", False]], ["in/l1", "L", ["R", "l2", False]]]
            roots = ["in"]
        elif shape == 2:    # link to a hidden file, no --hidden
            entries = [["in", "D", None], ["out", "D", None], ["out/.secret", "F", 2], ["in/" + f, "F", 3],
                       ["in/l", "L", ["T", "out/.secret", rng.chance(1, 2)]], ["in/.h2", "F", 2],
                       ["in/k", "L", ["R", ".h2", False]]]
            roots = ["in"] if rng.chance(1, 2) else [""]
        else:               # link to a file that an ignore file on the way lists (inside its directory)
            o["no_ignore"] = False
            entries = [["in", "D", None], ["in/sub", "D", None], ["in/sub/x.log", "F", 2], ["in/sub/keep", "F", 3],
                       ["in/" + rng.choice([".gitignore", ".fdignore"]), "I", [rng.choice(["x.log", "*.log"])]],
                       ["in/l", "L", ["R", "sub/x.log", False]]]
            roots = ["in"]
        return {"top": "top", "entries": entries, "shm": None}, o, roots, ""
    elif which == "ign_dirrule_link":
        # a directory-only ignore rule `name/` and a LINK of that name (to a file / to a directory): a link is not a
        # directory for the rule, so the link is looked at (-S: listed; -L: its target visited, also when the target is
        # reachable in no other way)
        nm = rng.choice(["cache", "build", d if d not in ("sub", "keep") else "cache"])
        entries = [["in", "D", None], ["in/sub", "D", None], ["out", "D", None], ["out/y.bin", "F", 3], ["out/dd", "D", None],
                   ["out/dd/z", "F", 2], ["in/keep", "F", 3],
                   ["in/" + rng.choice([".gitignore", ".fdignore"]), "I", [nm + "/"]],
                   ["in/" + nm, "L", ["T", "out/y.bin", rng.chance(1, 2)]],
                   ["in/sub/" + nm, "L", ["T", rng.choice(["out/y.bin", "out/dd", "in/keep"]), rng.chance(1, 2)]]]
        o["no_ignore"] = False
        o["follow"] = rng.chance(1, 2)
        o["symlinks"] = (not o["follow"]) or rng.chance(1, 3)
        roots = ["in"]
        return {"top": "top", "entries": entries, "shm": None}, o, roots, ""
    elif which == "icase_upper":
        # --ignore-case with literal pattern prefixes over names with upper-case non-ASCII letters,
        # in a directory below the input path and in the working-directory prefix of a relative pattern
        o["follow"] = False
        o["icase"] = True
        u1, u2 = rng.choice(UPPER_NAMES), rng.choice(UPPER_NAMES)
        while u2 in (a, d, f):
            u2 = rng.choice(UPPER_NAMES)
        entries = [[u2, "D", None], [u2 + "/" + f, "F", 2], [u2 + "/g", "F", 3], [u2 + "/" + d, "D", None],
                   [u2 + "/" + d + "/h", "F", 2], [a, "D", None], [a + "/o", "F", 2], ["x", "F", 2]]
        spelled = rng.choice([u2, u2, u2.lower(), u2.upper()])
        how = rng.below(4)
        if how == 0:
            o["paths"] = ["TOPLIT:" + spelled + "/**"]
            o["_expect_rel"] = ["under", u2]
        elif how == 1:
            o["paths"] = [gesc(spelled) + "/**"]              # relative: the cwd prefix holds the top name
            o["_expect_rel"] = ["under", u2]
        elif how == 2:
            o["excludes"] = ["TOPLIT:" + spelled + "/**"]
            o["_expect_rel"] = ["not_under", u2]
        else:
            o["paths"] = ["TOPLIT:" + spelled + "/" + d + "/*", "TOPLIT:" + a + "/**"]
        o["_patkind"] = "icase_upper_nonascii"
        roots = [""]
        return {"top": u1 if rng.chance(2, 3) else "top", "entries": entries, "shm": None}, o, roots, ""
    elif which == "twins":
        # component-boundary twins: the concatenated component bytes of two different paths are equal
        # (a/bc.txt vs ab/c.txt, x/yz vs xy/z, a/b/c vs ab/c).  With -L every path goes through the visited set.
        o["follow"] = rng.chance(4, 5)
        shape = rng.below(4)
        if shape == 0:
            entries = [["a", "D", None], ["ab", "D", None], ["a/bc.txt", "F", 2], ["ab/c.txt", "F", 3]]
        elif shape == 1:
            entries = [["x", "D", None], ["xy", "D", None], ["x/yz", "F", 2], ["xy/z", "F", 2], ["x/y", "F", 3]]
        elif shape == 2:
            entries = [["a", "D", None], ["a/b", "D", None], ["ab", "D", None], ["a/b/c", "F", 2], ["ab/c", "F", 3],
                       ["a/bc", "F", 2]]
        else:
            entries = [["a", "D", None], ["ab", "D", None], ["a/bc.txt", "F", 2], ["ab/c.txt", "H", "a/bc.txt"],
                       ["a/b", "D", None], ["a/b/c.txt", "F", 2]]
        if rng.chance(1, 2):
            entries.append(["pad", "F", 2])
        o["depth"] = rng.choice([None, None, 3])
        roots = [""] if rng.chance(2, 3) else ["a", "ab"]
        return {"top": rng.choice(["top", "t", "tw"]), "entries": entries, "shm": None}, o, roots, ""
    elif which == "cwd_meta":
        # relative patterns are anchored at a working directory whose name is glob / ext-glob syntax
        o["follow"] = False
        m1, m2 = rng.choice(META_NAMES), rng.choice(META_NAMES)
        entries = [[m2, "D", None], [m2 + "/" + d, "D", None], [m2 + "/" + d + "/" + f, "F", 2], [m2 + "/" + d + "/g", "F", 3],
                   [m2 + "/other", "D", None], [m2 + "/other/o", "F", 2], [m2 + "/x", "F", 2]]
        cwd = m2 if rng.chance(2, 3) else ""
        pat_dir = d if cwd else gesc(m2) + "/" + d
        how = rng.below(3)
        if how == 0:
            o["paths"] = [gesc(pat_dir) if not cwd else gesc(d)]
            o["paths"] = [o["paths"][0] + "/**"] if cwd else [gesc(m2) + "/" + gesc(d) + "/**"]
            o["_expect_rel"] = ["under", m2 + "/" + d]
        elif how == 1:
            o["excludes"] = [(gesc(d) if cwd else gesc(m2) + "/" + gesc(d)) + "/**"]
            o["_expect_rel"] = ["not_under", m2 + "/" + d]
        else:
            o["regex"] = True
            import re as _re
            o["paths"] = [(_re.escape(d) if cwd else _re.escape(m2) + "/" + _re.escape(d)) + "/.*"]
            o["_expect_rel"] = ["under", m2 + "/" + d]
        o["icase"] = rng.chance(1, 4)
        o["_patkind"] = "relative_in_meta_cwd"
        roots = [m2]
        return {"top": m1, "entries": entries, "shm": None}, o, roots, cwd
    return {"top": "top", "entries": entries, "shm": None}, o, roots, cwd


def materialize(spec, base, shm_base):
    """Create the tree; returns the absolute canonical path of the top directory."""
    top = os.path.join(base, spec["top"])
    os.makedirs(top)
    shm_top = None
    if spec.get("shm"):
        shm_top = shm_base
        os.makedirs(shm_top)
        for p, k, a in spec["shm"]["entries"]:
            full = os.path.join(shm_top, p)
            if k == "D":
                os.mkdir(full)
            else:
                with open(full, "wb") as f:
                    f.write(b"s" * a)
    for p, k, a in spec["entries"]:
        full = os.path.join(top, p)
        if k == "D":
            os.mkdir(full)
        elif k == "F":
            with open(full, "wb") as f:
                f.write(b"x" * a)
        elif k == "I":
            real = full
            if a and a[0] == "\x00LINK":
                a = a[1:]
                real = os.path.join(os.path.dirname(full), ".rules-of-" + os.path.basename(full).lstrip("."))
                os.symlink(os.path.basename(real) if len(a) % 2 else real, full)      # relative or absolute link text
            with open(real, "w") as f:
                f.write("".join(x + "\n" for x in a))
        elif k == "O":
            os.mkfifo(full)
        elif k == "H":
            os.link(os.path.join(top, a), full)
        elif k == "L":
            how, t, absolute = a
            if how == "R":
                text = t
            elif how == "S":
                text = os.path.join(shm_top, t) if t else shm_top
            else:
                tfull = os.path.join(top, t) if t else top
                text = tfull if absolute else os.path.relpath(tfull, os.path.dirname(full))
            os.symlink(text, full)
    return top, shm_top


# ------------------------------------------------------------------------------------------------
# reading the tree back: the model's input

def comps(p):
    return [c for c in p.split("/") if c]


def enc_comp(c):
    b = os.fsencode(c)
    return ".".join(str(x) for x in b) if b else "-"


class Dump:
    """nodes: list of (abspath, parent index, kind fields); siblings in inode order."""

    def __init__(self):
        self.nodes = []
        self.index = {}

    def add(self, path, parent):
        lst = os.lstat(path)
        m = lst.st_mode
        dev = lst.st_dev
        if st_mod.S_ISLNK(m):
            text = os.readlink(path)
            kind = "L,%s,%s" % ("a" if text.startswith("/") else "r", ":".join(enc_comp(c) for c in comps(text)))
        elif st_mod.S_ISDIR(m):
            kind = "D"
        elif st_mod.S_ISREG(m):
            kind = "F,%d" % lst.st_size
        else:
            kind = "O"
        i = len(self.nodes)
        name = os.path.basename(path) if path != "/" else ""
        self.nodes.append("%d,%s,%d,%s" % (parent, enc_comp(name) if name else "-", dev, kind))
        self.index[path] = i
        return i, st_mod.S_ISDIR(m) and not st_mod.S_ISLNK(m)

    def chain(self, path):
        """ancestors of `path` from / down to path itself (directories outside the generated tree)"""
        cur = "/"
        if cur not in self.index:
            self.add(cur, -1)
        for c in comps(path):
            nxt = os.path.join(cur, c)
            if nxt not in self.index:
                self.add(nxt, self.index[cur])
            cur = nxt
        return self.index[path]

    def subtree(self, path):
        i = self.index[path]
        with os.scandir(path) as it:
            ents = sorted(it, key=lambda e: e.inode())
        inos = [e.inode() for e in ents]
        assert len(set(inos)) == len(inos), "duplicate inode numbers in one directory"
        for e in ents:
            j, isdir = self.add(e.path, i)
            if isdir:
                self.subtree(e.path)


def dump_tree(top, shm_top):
    d = Dump()
    d.chain(top)
    d.subtree(top)
    if shm_top:
        d.chain(shm_top)
        d.subtree(shm_top)
    return d


# ------------------------------------------------------------------------------------------------
# ignore files: Python evaluation of the `ignore` crate on the three generated pattern forms
# (Gitignore::matched(path, is_dir): the path itself only, never its parents)

def read_ignore(d):
    for n in (".gitignore", ".fdignore"):
        f = os.path.join(d, n)
        if os.path.isfile(f):
            with open(f) as fh:
                return [l.rstrip("\n") for l in fh if l.strip()]
    return None


def ign_match(pats, d, path, isdir, anywhere):
    """`anywhere`: what the crate does for a path that is not below the directory of the ignore file
    (Gitignore::strip removes the root as a BYTE prefix — not at a component boundary — and otherwise
    matches the full path; patterns without a slash are `**/pat`); False = documented scope only."""
    root = d.rstrip("/")
    under = path.startswith(root + "/")
    if not under and not anywhere:
        return False
    if path.startswith(root):
        cand = path[len(root):]
        if cand.startswith("/"):
            cand = cand[1:]
    else:
        cand = path
    name = cand.rsplit("/", 1)[-1]
    for p in pats:
        if p.endswith("/"):
            if isdir and name == p[:-1]:
                return True
        elif p.startswith("*."):
            if name.endswith(p[1:]):
                return True
        elif name == p:
            return True
    return False


# ------------------------------------------------------------------------------------------------
# options / roots

def gesc(p):
    """escape glob-special characters of a literal path (pattern.rs: backslash escapes)"""
    return "".join("\\" + ch if ch in "*?[]{}()|+@!\\" else ch for ch in p)


def gen_options(rng, top, dirs_abs, files_abs, have_links, have_ignore, k3_dir=None):
    o = {"depth": None, "hidden": False, "follow": False, "symlinks": False, "no_ignore": True, "one_fs": False,
         "min": 1, "max": None, "names": [], "paths": [], "excludes": [], "regex": False, "icase": False}
    if rng.chance(1, 2):
        o["depth"] = rng.below(5)
    o["hidden"] = rng.chance(1, 3)
    if have_links:
        o["follow"] = rng.chance(1, 2)
        o["symlinks"] = rng.chance(2, 5)
    else:
        o["follow"] = rng.chance(1, 6)
        o["symlinks"] = rng.chance(1, 6)
    o["no_ignore"] = (not have_ignore) or rng.chance(1, 4)
    o["one_fs"] = rng.chance(1, 5)
    o["min"] = rng.choice([1, 1, 0, 2, 3])
    o["max"] = rng.choice([None, None, 2, 3, 5])
    k = rng.below(15)
    o["_patkind"] = "none"
    if k == 0:
        o["names"] = [rng.choice(["*.log", "a*", "?", "[ab]*", "ż", "*-1", "*.1", "b*"])]
        o["_patkind"] = "name"
    elif k == 1 and dirs_abs:
        d = rng.choice(dirs_abs)
        o["paths"] = [gesc(d) + "/**"]
        o["_patkind"] = "path_abs"
        o["_expect"] = ["under", d]
    elif k == 2 and dirs_abs:
        d = rng.choice(dirs_abs)
        o["paths"] = ["REL:" + d]      # made cwd-relative once cwd is known
        o["_patkind"] = "path_rel"
        o["_expect"] = ["under", d]
    elif k == 3 and files_abs:
        o["paths"] = [gesc(rng.choice(files_abs))]
        o["_patkind"] = "path_exact"
    elif k == 4 and dirs_abs:
        d = rng.choice(dirs_abs)
        o["excludes"] = [gesc(d) + "/**"]
        o["_patkind"] = "exclude_dir"
        o["_expect"] = ["not_under", d]
    elif k == 5:
        o["paths"] = ["**/" + rng.choice(["bar", "d", "a-1", "ż"]) + "/*"]
        o["excludes"] = ["**/x.log"] if rng.chance(1, 2) else []
        o["_patkind"] = "path_glob"
    elif k == 6:
        o["regex"] = True
        o["names"] = [rng.choice([r".*\.log", "[ab].*", r"a\W1"])]
        o["icase"] = rng.chance(1, 2)
        o["_patkind"] = "regex_name"
    elif k == 7 and dirs_abs:
        o["regex"] = True
        import re as _re
        o["paths"] = [_re.escape(rng.choice(dirs_abs)) + "/.*"]
        o["_patkind"] = "regex_path"
    elif k == 8 and len(dirs_abs) >= 2:
        # several --path globs with diverging literal prefixes (a file is selected iff ANY of them matches)
        ds = rng.shuffle(dirs_abs)[:2 + rng.below(2)]
        forms = [rng.choice(["/**", "/**", "/*", "/*.log", "/?*"]) for _ in ds]
        rel = rng.chance(1, 3)
        o["paths"] = [("REL:" + d) if (rel and f == "/**") else gesc(d) + f for d, f in zip(ds, forms)]
        o["_patkind"] = "multi_path"
        if all(f == "/**" for f in forms):
            o["_expect"] = ["multi", list(ds), []]
        if rng.chance(1, 3):
            x = rng.choice(dirs_abs)
            o["excludes"] = [gesc(x) + "/**"]
            if "_expect" in o:
                o["_expect"][2] = [x]
    elif k == 9 and len(dirs_abs) >= 2:
        xs = rng.shuffle(dirs_abs)[:2 + rng.below(2)]
        o["excludes"] = [gesc(x) + "/**" for x in xs]
        o["_patkind"] = "multi_exclude"
        o["_expect"] = ["multi", [], list(xs)]
        if rng.chance(1, 2):
            d = rng.choice(dirs_abs)
            o["paths"] = [gesc(d) + "/**"]
            o["_expect"][1] = [d]
    elif k == 10:
        o["names"] = rng.shuffle(["*.log", "a*", "?", "[ab]*", "ż", "*-1", "*.1", "b*", "Ż", "É*"])[:2 + rng.below(2)]
        o["_patkind"] = "multi_name"
        if rng.chance(1, 3) and len(dirs_abs) >= 2:
            o["paths"] = [gesc(d) + "/**" for d in rng.shuffle(dirs_abs)[:2]]
    if k3_dir is not None:
        o.pop("_expect", None)
        # K3: an exclude pattern that is a proper prefix (inside a component) of a directory name
        o["excludes"] = [k3_dir[:-1 - rng.below(max(1, min(2, len(os.path.basename(k3_dir)) - 1)))]]
        o["names"] = []
        o["paths"] = []
        o["regex"] = False
        o["_patkind"] = "exclude_prefix"
    if o["names"] or o["paths"] or o["excludes"]:
        o["icase"] = o["icase"] or rng.chance(1, 3)
    return o


def gen_roots(rng, top, dirs_abs, files_abs, links_abs, shm_top):
    """returns (cwd, [root strings])"""
    cwd = rng.choice([os.path.dirname(top), top] + dirs_abs[:6])
    n = 1 + (rng.below(3) if rng.chance(1, 2) else 0)
    roots = []
    for _ in range(n):
        k = rng.below(14)
        if k < 5:
            t = top
        elif k < 8 and dirs_abs:
            t = rng.choice(dirs_abs)
        elif k == 8 and files_abs:
            t = rng.choice(files_abs)
        elif k == 9 and links_abs:
            t = rng.choice(links_abs)
        elif k == 10:
            t = os.path.join(top, "missing")
        elif k == 11 and roots:
            t = None
            roots.append(roots[0])          # repeated
        elif k == 12 and shm_top:
            t = shm_top
        else:
            t = top
        if t is None:
            continue
        form = rng.below(5)
        if form == 0:
            s = t
        elif form == 1:
            s = os.path.relpath(t, cwd)
        elif form == 2:
            s = "./" + os.path.relpath(t, cwd)
        elif form == 3 and t != "/" and os.path.isdir(t) and not os.path.islink(t):
            s = os.path.relpath(t, cwd) + "/../" + os.path.basename(t)
        else:
            s = os.path.relpath(t, cwd)
        roots.append(s)
    return cwd, roots


# ------------------------------------------------------------------------------------------------
# the reference walk (documentation reading), on the real file system

class Ref:
    def __init__(self, case, sel_file, sel_dir, not_excl, prune, ign_anywhere, no_ignore=False):
        self.o = dict(case["opts"])
        if no_ignore:
            self.o["no_ignore"] = True
        self.not_excl = not_excl
        self.case = case
        self.sel_file = sel_file
        self.sel_dir = sel_dir
        self.prune = prune
        self.ign_anywhere = ign_anywhere
        self.depth = self.o["depth"] if self.o["depth"] is not None else 10 ** 9
        self.found = {}          # path -> route (list of visited paths) of the first derivation
        self.pruned_at = {}      # file path -> set of pruned directories seen on candidate routes (prune=False bookkeeping)
        self.budget = 200000

    def in_excluded_tree(self, path):
        """--exclude: a path is ignored when it, or a directory above it, is matched fully by an exclude pattern"""
        cur = path
        while True:
            if not self.not_excl(cur):
                return True
            if cur == "/":
                return False
            cur = os.path.dirname(cur)

    def ignored(self, stack, path, isdir):
        if self.o["no_ignore"]:
            return False
        return any(ign_match(p, d, path, isdir, self.ign_anywhere) for d, p in stack)

    def report(self, path, route):
        if not self.sel_file(path):
            return
        try:
            ln = os.stat(path).st_size
        except OSError:
            return
        mx = self.o["max"] if self.o["max"] is not None else 2 ** 64
        if self.o["min"] <= ln <= mx:
            self.found.setdefault(path, list(route) + [path])

    def visit(self, path, level, stack, route, dev, is_root, via_path):
        self.budget -= 1
        if self.budget < 0:
            raise RuntimeError("reference walk budget exhausted")
        if path in route:
            return
        try:
            lst = os.lstat(path)
        except OSError:
            return
        if via_path and self.prune:
            # visit_path: the directory filter applies to the parent of a regular file or link, to the path itself otherwise
            leaf = st_mod.S_ISREG(lst.st_mode) or st_mod.S_ISLNK(lst.st_mode)
            if not self.sel_dir(os.path.dirname(path) if leaf else path):
                return
        name = os.path.basename(path)
        if not self.o["hidden"] and name.startswith(".") and level > 0:
            return                                      # hidden names are skipped below the input paths only
        m = lst.st_mode
        isdir = st_mod.S_ISDIR(m)
        if self.ignored(stack, path, isdir):
            return
        if self.in_excluded_tree(os.path.dirname(path) if st_mod.S_ISLNK(m) else path):
            return                                      # inside a directory matched fully by --exclude (a link is judged
                                                        # through what it points to; as a reported link through sel_file)
        route2 = route + [path]
        if st_mod.S_ISREG(m):
            self.report(path, route)
        elif isdir:
            if level >= self.depth:
                return
            if self.prune and not self.sel_dir(path):
                return
            if self.o["one_fs"] and lst.st_dev != dev:
                return
            stack2 = stack
            if not self.o["no_ignore"]:
                pats = read_ignore(path)
                if pats is not None:
                    stack2 = stack + [(path, pats)]
            for e in sorted(os.listdir(path)):
                self.visit(os.path.join(path, e), level + 1, stack2, route2, dev, False, False)
        elif st_mod.S_ISLNK(m):
            if not (self.o["follow"] or self.o["symlinks"]):
                return
            try:
                fin = os.stat(path)
            except OSError:
                return                                  # dangling or looping link
            if st_mod.S_ISREG(fin.st_mode) and self.o["symlinks"]:
                self.report(path, route)
                return
            if not self.o["follow"]:
                return
            text = os.readlink(path)
            hop = text if text.startswith("/") else os.path.join(os.path.dirname(path), text)
            if st_mod.S_ISREG(fin.st_mode):
                target = os.path.join(os.path.realpath(os.path.dirname(hop)), os.path.basename(hop))
            else:
                target = os.path.realpath(hop)
            if self.o["one_fs"] and fin.st_dev != dev:
                return
            self.visit(target, level, stack, route2, dev, False, True)

    def run(self):
        cwd = self.case["cwd"]
        for r in self.case["roots"]:
            p = r if r.startswith("/") else os.path.join(cwd, r)
            try:
                fin = os.stat(p)
            except OSError:
                continue
            if st_mod.S_ISREG(fin.st_mode):
                p = os.path.join(os.path.realpath(os.path.dirname(p)), os.path.basename(p))
            else:
                p = os.path.realpath(p)
            if st_mod.S_ISDIR(fin.st_mode) and self.depth == 0:
                continue
            self.visit(p, 0, [], [], fin.st_dev, True, True)
        return self.found


# ------------------------------------------------------------------------------------------------

def harness_case(case, threads):
    o = case["opts"]
    return json.dumps({"cwd": case["cwd"], "roots": case["roots"], "depth": o["depth"], "hidden": o["hidden"],
                       "follow": o["follow"], "symlinks": o["symlinks"], "no_ignore": o["no_ignore"],
                       "one_fs": o["one_fs"], "min": o["min"], "max": o["max"], "names": o["names"],
                       "paths": o["paths"], "excludes": o["excludes"], "regex": o["regex"], "icase": o["icase"],
                       "threads": threads, "eval": case["eval"]})


def cli_args(case):
    o = case["opts"]
    a = ["group"] + case["roots"] + ["--rf-over", "0", "-f", "json"]
    if o["depth"] is not None:
        a += ["--depth", str(o["depth"])]
    if o["hidden"]:
        a.append("--hidden")
    if o["follow"]:
        a.append("-L")
    if o["symlinks"]:
        a.append("-S")
    if o["no_ignore"]:
        a.append("--no-ignore")
    if o["one_fs"]:
        a.append("--one-fs")
    if o["min"] != 1:
        a += ["--min", str(o["min"])]
    if o["max"] is not None:
        a += ["--max", str(o["max"])]
    for key, flag in (("names", "--name"), ("paths", "--path"), ("excludes", "--exclude")):
        for v in o[key]:
            a += [flag, v]             # one value per occurrence (clap takes the next word as an input path otherwise)
    if o["regex"]:
        a.append("--regex")
    if o["icase"]:
        a.append("-i")
    return a


def model_line(case, sel_file, sel_dir, sched):
    o = case["opts"]
    base = os.path.realpath(case["cwd"])
    roots = []
    for r in case["roots"]:
        cs = comps(r) if r.startswith("/") else comps(base) + comps(r)
        roots.append(",".join(enc_comp(c) for c in cs) if cs else "-")
    cfg = "%s %d %d %d %d %d %d %s" % ("inf" if o["depth"] is None else o["depth"], o["hidden"], o["follow"],
                                       o["symlinks"], o["no_ignore"], o["one_fs"], o["min"],
                                       "inf" if o["max"] is None else o["max"])
    return " | ".join([cfg, sched, ";".join(roots), ";".join(case["nodes"]), sel_file, sel_dir, case["ign"] or "-"])


def parse_model(line, case):
    if not line.startswith("ok "):
        return None
    parts = [x.strip() for x in line[3:].split("|")]
    paths = case["eval"]

    def dec(f):
        return sorted(paths[int(i)] for i in f.split(".")) if f != "-" else []
    return {"walk": dec(parts[0]), "scan": dec(parts[1]), "bound": int(parts[2])}


def ign_table(case_nodes_paths, kinds, dirs_with_ign):
    pairs = []
    idx = {p: i for i, p in enumerate(case_nodes_paths)}
    for d, pats in dirs_with_ign:
        for p in case_nodes_paths:
            if ign_match(pats, d, p, kinds[p] == "D", True):
                pairs.append("%d:%d" % (idx[d], idx[p]))
    return ",".join(pairs)


def prepare(ctx, spec, tag, rng=None, unused=False):
    """materialise a tree and derive everything that depends only on the tree"""
    base = os.path.join(os.path.realpath(ctx.scratch), tag)
    os.makedirs(base)
    shm_base = os.path.join(SHM, "verif_W_%d_%s" % (os.getpid(), tag)) if spec.get("shm") else None
    if shm_base:
        ctx.shm_dirs.append(shm_base)
    top, shm_top = materialize(spec, base, shm_base)
    d = dump_tree(top, shm_top)
    paths = list(d.index.keys())
    assert [d.index[p] for p in paths] == list(range(len(paths)))
    kinds = {}
    for p, n in zip(paths, d.nodes):
        kinds[p] = n.split(",")[3]
    inside = [p for p in paths if p == top or p.startswith(top + "/")]
    dirs_abs = [p for p in inside if kinds[p] == "D"]
    files_abs = [p for p in inside if kinds[p] == "F"]
    links_abs = [p for p in inside if kinds[p] == "L"]
    with_ign = []
    for p in paths:
        if kinds[p] == "D":
            pats = read_ignore(p)
            if pats is not None and (p == top or p.startswith(top + "/")):
                with_ign.append((p, pats))
    return {"spec": spec, "tag": tag, "top": top, "shm_top": shm_top, "nodes": d.nodes, "eval": paths,
            "kinds": kinds, "dirs": dirs_abs, "files": files_abs, "links": links_abs,
            "ign": ign_table(paths, kinds, with_ign), "have_ign": bool(with_ign)}


def make_case(tree, opts, cwd, roots):
    o = dict(opts)
    paths = []
    for p in o["paths"]:
        if p.startswith("REL:"):
            rel = os.path.relpath(p[4:], cwd)
            if rel == ".":
                p = "**"
                o.pop("_expect", None)          # a pattern starting with ** is absolute: it matches everywhere
            else:
                p = gesc(rel) + "/**"
                if rel.startswith(".."):
                    o.pop("_expect", None)      # `..` is not resolved inside patterns: no documented meaning to compare with
        paths.append(p)
    o["paths"] = paths
    return {"tree_tag": tree["tag"], "spec": tree["spec"], "top": tree["top"], "cwd": cwd, "roots": roots, "opts": o,
            "base": os.path.dirname(tree["top"]), "shm_top": tree["shm_top"],
            "nodes": tree["nodes"], "eval": tree["eval"], "ign": tree["ign"], "kinds": tree["kinds"]}


def is_prefix_path(d, p):
    return p == d or p.startswith(d.rstrip("/") + "/")


def classify_missing(case, p, sel_dir, refs):
    """Why does the reference (documentation) walk select p while the code-like reference does not?
    refs: dict name -> found set, for the variants with exactly one code deviation switched on."""
    o = case["opts"]
    if p not in refs["prune"]:
        # a directory (or the file path itself) failing matches_dir on every route
        route = refs["doc_routes"][p]
        bad = [d for d in route if not sel_dir(d)]
        on_path = [d for d in bad if is_prefix_path(d, p)]
        if on_path == [p] and o["excludes"]:
            # matches_full_path(p) holds, so the include side of matches_dir(p) holds too (a20abe7): the exclude side
            # rejected the visited file path p + "/" although no exclude pattern matches p
            return {"kind": "exclude_children_glob_rejects_visited_file", "level": "walk"}
        if on_path:
            for d in on_path:
                ds = d + "/"
                for e in o["excludes"]:
                    if not o["regex"] and not any(ch in e for ch in "*?[{") and ds.startswith(e) and \
                            len(e) < len(ds) and not e.endswith("/") and ds[len(e)] != "/":
                        return {"kind": "exclude_prefix_prunes_sibling"}
            return {"kind": "prune_not_conservative", "pattern_kind": o["_patkind"]}
        if o["follow"]:
            return {"kind": "prune_on_link_route", "follow_links": True}
        return {"kind": "prune_not_conservative", "pattern_kind": o["_patkind"]}
    if p not in refs["ign_anywhere"]:
        return {"kind": "ignore_file_applied_outside_its_dir", "follow_links": bool(o["follow"])}
    return None


def evaluate(ctx, cases, model, do_cli, fclones):
    env = {"HOME": ctx.home, "XDG_CONFIG_HOME": ctx.home, "GIT_CONFIG_NOSYSTEM": "1"}
    # 1. implementation, API level
    out1 = core.run_lines_parallel(WALK, [harness_case(c, 1) for c in cases], env=env)
    out4 = core.run_lines_parallel(WALK, [harness_case(c, 4) for c in cases], env=env)
    impl1 = [json.loads(x) for x in out1]
    impl4 = [json.loads(x) for x in out4]
    # 2. model under several schedulers
    scheds = ["lifo", "fifo", "rand:3", "rand:17"]
    lines = []
    for c, r in zip(cases, impl1):
        if "error" in r:
            continue
        for s in scheds:
            lines.append(model_line(c, r["sel_file"], r["sel_dir"], s))
    mout = core.run_lines_parallel(model, lines)
    mi = 0
    for ci, (c, r1, r4) in enumerate(zip(cases, impl1, impl4)):
        ctx.count()
        o = c["opts"]
        replay = {"case": {k: c[k] for k in ("spec", "cwd", "roots", "opts", "tree_tag", "base", "shm_top")},
                  "cli": "cd %s && fclones %s" % (c["cwd"], " ".join(cli_args(c))),
                  "note": "tree paths are relative to the scratch directory of the run; --replay rebuilds the tree"}
        if "error" in r1:
            ctx.bump("harness_error", r1["error"][:40])
            if "Invalid pattern" in r1["error"]:
                continue
            ctx.violation({"kind": "harness_error"}, "harness failed: " + r1["error"], replay, found_input=False)
            continue
        m = {}
        for s in scheds:
            m[s] = parse_model(mout[mi], c)
            mi += 1
        if any(v is None for v in m.values()):
            ctx.violation({"kind": "model_out_of_fuel"}, "the model ran out of fuel or failed: %s" % mout[mi - 4:mi],
                          replay, found_input=False)
            continue
        idx = {p: i for i, p in enumerate(c["eval"])}
        bits_f, bits_d = r1["sel_file"], r1["sel_dir"]
        sel_file = lambda p: bits_f[idx[p]] == "1"
        sel_dir = lambda p: bits_d[idx[p]] == "1"
        bits_x = r1["not_excl"]
        not_excl = lambda p: bits_x[idx[p]] == "1"

        # histogram
        ctx.bump("depth", "inf" if o["depth"] is None else o["depth"])
        ctx.bump("options", "".join(k[0] if o[k] else "-" for k in ("hidden", "follow", "symlinks", "no_ignore", "one_fs")))
        ctx.bump("pattern_kind", o["_patkind"])
        ctx.bump("n_roots", len(c["roots"]))
        ctx.bump("tree_nodes", min(len(c["eval"]) // 10 * 10, 60))
        ctx.bump("links_in_tree", min(sum(1 for k in c["kinds"].values() if k == "L"), 6))
        ctx.bump("reported_files", min(len(r1["walk"]), 12))
        ctx.bump("size_filter", "%s..%s" % (o["min"], o["max"]))
        # schedule independence is what the theorems give: C09_exact (no link following) and
        # C09_exact_follow_partial (route-independent options); elsewhere only soundness is expected
        no_hidden_names = not any(os.path.basename(q).startswith(".") for q in c["eval"]
                                  if q.startswith(c["top"] + "/") or (c["shm_top"] and q.startswith(c["shm_top"] + "/")))
        route_indep = o["no_ignore"] and not o["one_fs"] and "0" not in bits_d and \
            (o["depth"] is None or o["depth"] > len(c["eval"])) and (o["hidden"] or no_hidden_names)
        sched_dep = o["follow"] and not route_indep
        ctx.bump("theorem_class", "exact_nofollow" if not o["follow"] else ("exact_follow_partial" if route_indep else "sound_only"))
        if not sched_dep and any(m[s]["walk"] != m["lifo"]["walk"] for s in scheds):
            ctx.violation({"kind": "model_schedule_dependent_where_theorem_says_not"},
                          "the model gives different results under different schedulers although the options are in the "
                          "class of C09_exact / C09_exact_follow_partial", replay, found_input=False)
        ctx.bump("model_schedule_dependent_observed", any(m[s]["walk"] != m["lifo"]["walk"] for s in scheds))
        nontrivial = len(c["eval"]) > 8 and (len(r1["walk"]) > 0)
        ctx.distinct((c["tree_tag"], json.dumps(o, sort_keys=True), c["cwd"], tuple(c["roots"])), nontrivial)

        # 2a. the selector-level hypotheses of C09_exact / C09_exact_exclude on the real PathSelector:
        #     excl d = an --exclude pattern matches d fully;  (1) matches_dir rejects a proper ancestor of an accepted
        #     path only if that directory or one above it is excluded, (2) everything at or below an excluded path
        #     is rejected by matches_dir, (3) an excluded path is not accepted by matches_full_path
        def prefixes_of(q):
            out, cur = [], q
            while True:
                out.append(cur)
                if cur == "/":
                    return out
                cur = os.path.dirname(cur)
        hyp_bad = None
        for q in c["eval"]:
            pre = prefixes_of(q)
            excl_above = [d for d in pre if not not_excl(d)]
            if excl_above and sel_dir(q):
                hyp_bad = ("excluded_path_not_pruned", q, excl_above[0])
            if sel_file(q) and not not_excl(q):
                hyp_bad = ("excluded_path_accepted", q, q)
            if sel_file(q) and c["kinds"][q] != "D" and not hyp_bad:
                for d in pre[1:]:
                    if not sel_dir(d) and not any(not not_excl(d2) for d2 in prefixes_of(d)):
                        hyp_bad = ("ancestor_rejected", q, d)
                        break
            if hyp_bad:
                break
        ctx.bump("selector_hypotheses", "hold" if not hyp_bad else hyp_bad[0])
        if hyp_bad:
            what_, q_, d_ = hyp_bad
            ksig = {"kind": "selector_hypothesis_failed", "which": what_, "pattern_kind": o["_patkind"]}
            if what_ == "ancestor_rejected" and d_ == q_:
                # the path itself, taken as a directory, is rejected although no exclude pattern matches it:
                # an exclude pattern that matches only paths BELOW it (`P/**`, or with -i a differently cased twin)
                ksig = {"kind": "exclude_children_glob_rejects_visited_file", "level": "selector"}
            elif what_ == "ancestor_rejected":
                ds = d_ + "/"
                for e in o["excludes"]:
                    if not o["regex"] and not any(ch in e for ch in "*?[{") and ds.startswith(e) and \
                            len(e) < len(ds) and not e.endswith("/") and ds[len(e)] != "/":
                        ksig = {"kind": "exclude_prefix_prunes_sibling"}
            ctx.violation(ksig, "PathSelector (--path %s --exclude %s%s): %s: matches_full_path(%s) = %s, matches_dir(%s) = %s" % (
                o["paths"], o["excludes"], " -i" if o["icase"] else "", what_, q_, sel_file(q_), d_, sel_dir(d_)),
                dict(replay, path=q_, directory=d_), found_input=True)

        # 2b. the simple pattern kinds have an obvious documented meaning: check the real selector against it
        if o.get("_expect"):
            ex = o["_expect"]
            if ex[0] == "under":
                incl, excl = [ex[1]], []
            elif ex[0] == "not_under":
                incl, excl = [], [ex[1]]
            else:
                incl, excl = ex[1], ex[2]
            fold = (lambda x: x.lower()) if o["icase"] else (lambda x: x)
            below = lambda q, d: fold(q).startswith(fold(d) + "/")
            for q in c["eval"]:
                if c["kinds"][q] not in ("F", "L"):
                    continue
                # selected iff it matches ANY include path (or there is none) and NO exclude
                want = (not incl or any(below(q, d) for d in incl)) and not any(below(q, d) for d in excl)
                if sel_file(q) != want:
                    ctx.violation({"kind": "selector_disagrees_with_documented_pattern", "pattern_kind": o["_patkind"]},
                                  "--path %s --exclude %s%s: matches_full_path(%s) = %s, documented meaning says %s (cwd %s)" % (
                                      o["paths"], o["excludes"], " -i" if o["icase"] else "", q, sel_file(q), want, c["cwd"]),
                                  dict(replay, path=q), found_input=True)
                    break

        # 3. the documentation oracle and its code-like variants
        try:
            doc = Ref(c, sel_file, sel_dir, not_excl, False, False).run()
            ref_prune = Ref(c, sel_file, sel_dir, not_excl, True, False).run()
            ref_ia = Ref(c, sel_file, sel_dir, not_excl, False, True).run()
            code_like = Ref(c, sel_file, sel_dir, not_excl, True, True).run()
        except KeyError as e:
            ctx.violation({"kind": "oracle_unknown_path"}, "reference walk reached a path outside the dumped tree: %s" % e,
                          replay, found_input=False)
            continue
        refs = {"prune": set(ref_prune), "ign_anywhere": set(ref_ia), "doc_routes": doc}
        replay["reference_selected"] = sorted(doc)
        replay["implementation_1thread"] = r1["scan"]
        replay["model_lifo"] = m["lifo"]["scan"]

        impl_set = set(r1["scan"])
        failing_input = False
        root_paths = set()
        for r in c["roots"]:
            rp_ = r if r.startswith("/") else os.path.join(c["cwd"], r)
            root_paths.add(os.path.normpath(rp_))
            root_paths.add(os.path.join(os.path.realpath(os.path.dirname(rp_)), os.path.basename(rp_)))
        for p in sorted(impl_set - set(doc)):
            failing_input = True
            kind, why = "extra_file", "the options do not select it"
            if os.path.islink(p) and not o["symlinks"]:
                kind, why = "symlink_reported_without_S", "it is a symbolic link and --symbolic-links is not set (only link targets may be reported)"
            elif not o["hidden"] and os.path.basename(p).startswith(".") and p not in root_paths and \
                    not any(os.path.islink(r_) for r_ in root_paths):
                kind, why = "hidden_file_reported_without_hidden", "its name is hidden, it is not an input path and --hidden is not set"
            elif not o["no_ignore"] and p in Ref(c, sel_file, sel_dir, not_excl, False, False, no_ignore=True).run():
                kind, why = "ignored_file_reported", "an ignore file in a directory above it (on the way from the input path) lists it and --no-ignore is not set"
            ctx.violation({"kind": kind}, "file %s is reported but %s (%s)" % (p, why, replay["cli"]),
                          dict(replay, path=p), found_input=True)
        for p in sorted(set(doc) - impl_set):
            sig = classify_missing(c, p, sel_dir, refs)
            if sig is None:
                if p in code_like and o["follow"] and p not in m["lifo"]["scan"]:
                    mech = []
                    if o["depth"] is not None:
                        mech.append("depth")
                    if not o["no_ignore"]:
                        mech.append("ignore")
                    if o["one_fs"]:
                        mech.append("one_fs")
                    if len(c["roots"]) > 1:
                        mech.append("roots")
                    sig = {"kind": "visited_set_route_insensitive", "follow_links": True, "reproduced_by_model": True}
                    ctx.bump("N1_mechanism", "+".join(mech) or "other")
                else:
                    sig = {"kind": "selected_file_missing"}
            if sig["kind"] in ("selected_file_missing", "prune_not_conservative"):
                failing_input = True
            ctx.violation(sig, "file %s is selected by the options but not reported (%s)" % (p, replay["cli"]),
                          dict(replay, path=p, route=doc[p]), found_input=True)

        # 4. correspondence: 1 thread = LIFO, exactly
        corr_bad = None
        if r1["walk"] != m["lifo"]["walk"]:
            corr_bad = ("Walk::run on a 1-thread pool", r1["walk"], m["lifo"]["walk"])
        elif sorted(set(r1["scan"])) != m["lifo"]["scan"]:
            corr_bad = ("scan_files size filter", sorted(set(r1["scan"])), m["lifo"]["scan"])
        elif not sched_dep and r4["walk"] != m["lifo"]["walk"]:
            corr_bad = ("Walk::run on a 4-thread pool (model is schedule independent here)", r4["walk"], m["lifo"]["walk"])
        elif sched_dep and not set(r4["walk"]) <= set(code_like) | set(x for s in scheds for x in m[s]["walk"]):
            corr_bad = ("Walk::run on a 4-thread pool reports a path outside every reference", r4["walk"], m["lifo"]["walk"])
        if corr_bad and not failing_input:
            what, a, b = corr_bad
            from collections import Counter
            ca, cb = Counter(a), Counter(b)
            ctx.violation({"kind": "model_mismatch"},
                          "%s differs from the model (multisets of reported paths): more often in impl %s, more often in model %s (%s)" % (
                              what, sorted((ca - cb).elements())[:5], sorted((cb - ca).elements())[:5], replay["cli"]),
                          dict(replay, correspondence=what, implementation=a, model=b), found_input=False)
        elif corr_bad:
            core.log("model/implementation disagreement explained by a failing input: %s" % corr_bad[0])

        # 5. the binary
        if do_cli(ci):
            for extra in (["-t", "1"], []):
                p = core.run([fclones] + cli_args(c) + extra, cwd=c["cwd"], env=env, timeout=120)
                ctx.count()
                ctx.bump("cli_runs", "t1" if extra else "default")
                if p.returncode != 0 and "No input files" in p.stderr:
                    p.stdout = '{"groups": []}'
                elif p.returncode != 0:
                    if "Invalid pattern" in p.stderr or "could not be accessed" in p.stderr:
                        ctx.bump("cli_rejected", p.stderr.strip().split("fclones: ")[-1][:40])
                        continue
                    ctx.violation({"kind": "cli_failed"}, "fclones exited %d: %s" % (p.returncode, p.stderr[-300:]), replay,
                                  found_input=False)
                    continue
                try:
                    rep = json.loads(p.stdout)
                    listed = sorted(f for g in rep["groups"] for f in g["files"])
                except Exception as e:
                    ctx.violation({"kind": "cli_failed"}, "unreadable report: %r" % (e,), replay, found_input=False)
                    continue
                if len(set(listed)) != len(listed):
                    ctx.violation({"kind": "duplicate_path_reported"}, "a path is listed twice: %s" % replay["cli"],
                                  dict(replay, listed=listed), found_input=True)
                want = m["lifo"]["scan"]
                ok = (listed == want) if (extra or not sched_dep) else set(listed) <= set(code_like) | set(
                    x for s in scheds for x in m[s]["scan"])
                if not ok and not failing_input:
                    unexplained = [q for q in set(listed) ^ set(doc)
                                   if not (q in doc and classify_missing(c, q, sel_dir, refs))]
                    ctx.violation({"kind": "model_mismatch_cli"},
                                  "`%s %s` lists %s, the model %s" % (replay["cli"], " ".join(extra),
                                                                      sorted(set(listed) - set(want))[:5],
                                                                      sorted(set(want) - set(listed))[:5]),
                                  dict(replay, listed=listed, model=want), found_input=bool(unexplained))
        ctx.sample({"cli": replay["cli"], "reported": len(r1["scan"]), "reference": len(doc),
                    "model_bound": m["lifo"]["bound"]})


def run(ctx):
    ctx.rule = ("random directory trees on the real file system (nesting 0..6, hidden names, ignore files with literal / *.ext / "
                "dir/ patterns, symlinks to files and directories: relative, absolute, dangling, self/mutual loops, to ancestors, "
                "chained, to another device under /dev/shm; names with - . + ( [ and non-ASCII) x random option sets "
                "(--depth, --hidden, -L, -S, --no-ignore, --one-fs, --min/--max, --name/--path/--exclude as glob or regex, -i) "
                "x roots (absolute, relative, ./, x/../x, files, links, missing, repeated, overlapping) x working directory; "
                "a case = one (tree, options, cwd, roots); non-trivial = tree of more than 8 nodes and at least one reported "
                "file; distinct = distinct (tree, options, cwd, roots)")
    ctx.assumptions = [
        "the selector is abstract in the model: the booleans of the real PathSelector (matches_full_path / matches_dir) on every "
        "path of the tree are inputs of the model; pruning conservativity (C16_partial_conservative) is a hypothesis of the theorems "
        "and is evaluated on every generated case",
        "ignore files: the `ignore` crate is an oracle; for the generated patterns (literal, *.ext, dir/) it is evaluated by an "
        "independent Python function; the global gitignore is empty (HOME/XDG_CONFIG_HOME point to an empty directory)",
        "Path::hash128 is collision free on the paths of a tree; the tree does not change during a scan",
        "rayon with one worker thread executes spawned tasks LIFO (checked on every case: the 1-thread run must equal the model "
        "under the LIFO scheduler)"]
    ctx.trusted.append("C09: tree dump (lstat/readlink/scandir in inode order) in vlib/props/c09.py; Python evaluation of the three "
                       "generated ignore pattern forms; the Python reference walk (documentation reading) used as the direct oracle")
    ctx.use_coq()
    model = core.build_model("W")
    core.build_harness(["walk"])
    fclones = core.build_fclones()
    ctx.home = os.path.join(os.path.realpath(ctx.scratch), "home")
    os.makedirs(ctx.home, exist_ok=True)
    ctx.shm_dirs = []
    shm_ok = os.path.isdir(SHM) and os.access(SHM, os.W_OK) and os.stat(SHM).st_dev != os.stat(ctx.scratch).st_dev
    ctx.extra["one_fs_second_device"] = SHM if shm_ok else "unavailable: --one-fs exercised on a single device only"
    try:
        if ctx.replay:
            rp = json.load(open(ctx.replay))
            cs = rp["case"]
            tree = prepare(ctx, cs["spec"], "replay", ctx.rng, False)
            # the recorded cwd/roots/patterns name the scratch directories of the recording run: rebase them

            def rebase(s):
                s = s.replace(cs["base"], os.path.dirname(tree["top"]))
                s = s.replace(gesc(cs["base"]), gesc(os.path.dirname(tree["top"])))
                if cs.get("shm_top") and tree["shm_top"]:
                    s = s.replace(cs["shm_top"], tree["shm_top"])
                return s
            o = dict(cs["opts"])
            for k in ("paths", "excludes"):
                o[k] = [rebase(x) for x in o[k]]
            case = make_case(tree, o, rebase(cs["cwd"]), [rebase(r) for r in cs["roots"]])
            evaluate(ctx, [case], model, lambda i: True, fclones)
            return
        ntrees = ctx.pick(160, 1500)
        per_tree = ctx.pick(6, 10)
        cli_every = ctx.pick(5, 4)
        batch = []
        for ti in range(ntrees):
            rng = ctx.rng.fork()
            want_links = rng.chance(3, 5)
            want_ignore = rng.chance(2, 5)
            want_shm = shm_ok and want_links and rng.chance(1, 4)
            spec = gen_tree(rng, want_ignore, want_links, want_shm)
            tree = prepare(ctx, spec, "t%d" % ti, rng, False)
            ctx.bump("tree_has", "links" if tree["links"] else "nolinks")
            ctx.bump("tree_has", "ignore" if tree["have_ign"] else "noignore")
            ctx.bump("tree_has", "shm" if tree["shm_top"] else "noshm")
            maxnest = max(len(comps(p)) - len(comps(tree["top"])) for p in tree["eval"] if p.startswith(tree["top"]))
            ctx.bump("nesting", maxnest)
            if ti % 8 == 0:
                which = ["n1_depth", "n1_roots", "n1_ignore", "n5", "n2"][(ti // 8) % 5]
                extra = ["ov_depth", "ov_ignore", "ov_repeat", "cwd_meta"][(ti // 8) % 4]
                for wi, which in enumerate((which, extra, "cwd_meta" if extra != "cwd_meta" else "ov_depth",
                                            "icase_upper", "twins", "link_file", "ign_dirrule_link") + (("n7",) if (ti // 8) % 2 == 0 else ())):
                    dspec, dopts, droots, dcwd = gen_directed(rng, which)
                    dtree = prepare(ctx, dspec, "d%d_%d" % (ti, wi), rng, False)
                    dopts["paths"] = [gesc(dtree["top"] + "/" + x[4:-3]) + "/**" if x.startswith("TOP:") else x for x in dopts["paths"]]
                    for key in ("paths", "excludes"):
                        dopts[key] = [gesc(dtree["top"]) + "/" + x[7:] if x.startswith("TOPLIT:") else x for x in dopts[key]]
                    if "_expect_rel" in dopts:
                        kind_, rel_ = dopts.pop("_expect_rel")
                        dopts["_expect"] = [kind_, os.path.join(dtree["top"], rel_)]
                    ctx.bump("directed_scenario", which)
                    dcwd_abs = os.path.join(dtree["top"], dcwd) if dcwd else dtree["top"]
                    droots_final = []
                    for r in droots:
                        full = os.path.join(dtree["top"], r) if r else dtree["top"]
                        if (which.startswith("ov_") or which == "cwd_meta") and rng.chance(1, 2):
                            full = os.path.relpath(os.path.normpath(full), dcwd_abs)
                        droots_final.append(full)
                    batch.append(make_case(dtree, dopts, dcwd_abs, droots_final))
            for k in range(per_tree):
                k3 = None
                if k == per_tree - 1 and rng.chance(1, 2):
                    cands = [d for d in tree["dirs"] if d != tree["top"] and len(os.path.basename(d)) >= 2
                             and not any(ch in d for ch in "*?[]{}()|+@!\\")]
                    if cands:
                        k3 = rng.choice(cands)
                opts = gen_options(rng, tree["top"], tree["dirs"], tree["files"], bool(tree["links"]), tree["have_ign"], k3)
                cwd, roots = gen_roots(rng, tree["top"], tree["dirs"], tree["files"], tree["links"], tree["shm_top"])
                batch.append(make_case(tree, opts, cwd, roots))
        evaluate(ctx, batch, model, lambda i: i % cli_every == 0, fclones)
        ctx.extra["exhaustive"] = False
        # --follow-links over link targets in every spelling (absolute through another link, `..`, chains): model-free oracle
        from . import links_rt
        links_rt.follow_alias_check(ctx, ctx.pick(30, 400))
        # input paths inside other input paths that the outer walk does not reach (hidden / ignored), with and without -L
        from . import nested_rt
        nested_rt.nested_unreached_roots_check(ctx, ctx.pick(40, 400), "C09")
    finally:
        for d in ctx.shm_dirs:
            shutil.rmtree(d, ignore_errors=True)
