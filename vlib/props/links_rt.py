"""Directed dimension shared by C06 / C09: `--follow-links` over trees whose directory and file symlinks have targets in every
spelling — relative, absolute canonical, absolute THROUGH ANOTHER SYMLINK, absolute or relative with `..` / `.` components,
chains of links.  However a file is reached it is one file with one (canonical) path: model-free oracle = the report lists
exactly the regular files of the tree, each once, by a path that is its own realpath, grouped into the content classes that
qualify under the replica-counting rule (distinct inodes, or paths with --match-links)."""
import hashlib
import os
import shutil

from .. import core, treegen


def follow_alias_check(ctx, n):
    core.build_fclones()
    for i in range(n):
        rng = ctx.rng.fork()
        base = os.path.realpath(os.path.join(ctx.scratch, "alias%d" % i))
        top = os.path.join(base, "t")
        shutil.rmtree(base, ignore_errors=True)
        os.makedirs(top)
        size = rng.choice([1, 100, 5000])
        conts = [bytes([65 + k]) + treegen.content(rng.next(), size)[1:] for k in range(3)]      # pairwise different, also at size 1
        dirs = ["real", "real/sub", "real/sub/deep", "other", "x"]
        for d in dirs:
            os.makedirs(os.path.join(top, d), exist_ok=True)
        files = {}
        for k in range(3 + rng.below(5)):
            d = rng.choice(dirs[:4])
            p = os.path.join(top, d, "f%d" % k)
            c = rng.below(3)
            with open(p, "wb") as f:
                f.write(conts[c])
            files[p] = c
        if rng.chance(1, 2) and files:
            src = rng.choice(sorted(files))
            hl = os.path.join(top, "other", "hardlink")
            os.link(src, hl)
            files[hl] = files[src]
        links = []
        ln = 0

        def mk(target):
            nonlocal ln
            name = os.path.join(top, rng.choice(["", "x/", "other/"]) + "l%d" % ln)
            ln += 1
            try:
                os.symlink(target, name)
                links.append([name, target])
            except OSError:
                pass
            return name
        l_rel = mk("real" if True else "")
        first = links[0][0] if links and os.path.dirname(links[0][0]) == top else None
        spellings = [
            os.path.join(top, "real", "sub"),                                  # absolute, canonical
            os.path.join(top, "x", "..", "real", "sub"),                       # absolute with ..
            os.path.join(top, ".", "real", ".", "sub", "deep"),                # absolute with .
            os.path.join(top, "real", "sub", "deep", "..", "..", "sub"),
        ]
        if first:
            spellings += [os.path.join(first, "sub"), os.path.join(first, "sub", "deep")]   # absolute, through the symlink l0
        for _ in range(1 + rng.below(4)):
            mk(rng.choice(spellings))
        if files and rng.chance(1, 2):
            f = rng.choice(sorted(files))
            rel = os.path.relpath(f, top)
            mk(os.path.join(top, "x", "..", rel))                              # file link, absolute with ..
            if first and rel.startswith("real/"):
                mk(os.path.join(first, rel[len("real/"):]))                    # file link through the directory link
        if rng.chance(1, 3) and len(links) >= 2:
            mk(links[-1][0])                                                   # a chain: link to a link (absolute)
        opts = ["-L"]
        # -L together with -S: directory links are followed, links to FILES are listed under their own name
        both = rng.chance(1, 3)
        if both:
            opts.append("-S")
        ml = rng.chance(1, 2)
        if ml:
            opts.append("--match-links")
        k = rng.below(4)
        rf_over, rf_under = 1, None
        if k == 0:
            rf_over = rng.below(3)
            opts += ["--rf-over", str(rf_over)]
        elif k == 1:
            rf_under, rf_over = 2, None
            opts.append("--unique")
        root_spelling = rng.choice([top, "t", "./t/", "t/x/..", top + "/"])
        env0 = {"FCLONES_VERIF_DISK_KIND": "ssd"}
        rc, out, err = treegen.fclones(["group", root_spelling] + opts + ["-f", "json"] + rng.choice([[], ["--threads", "1"]]), cwd=base, env=env0)
        ctx.count()
        ctx.distinct(("alias", i, tuple(map(tuple, links)), tuple(opts), root_spelling), True)
        ctx.bump("follow_alias_links", len(links))
        payload = {"scenario": "follow-links over link targets in many spellings", "top": top, "links": links, "opts": opts, "root": root_spelling,
                   "files": sorted(files), "stderr": err.decode("utf-8", "replace")[-400:],
                   "replay": "cd %s && fclones group %s %s" % (base, root_spelling, " ".join(opts))}
        if rc != 0:
            ctx.violation({"kind": "run_failed", "dimension": "follow_alias"}, "fclones group failed (rc %d)" % rc, payload, found_input=True)
            continue
        _, groups = treegen.parse_json_report(out.decode("utf-8"))
        listed = [p.decode("utf-8", "surrogateescape") for g in groups for p in g["files"]]
        payload["reported"] = [[p.decode("utf-8", "surrogateescape") for p in g["files"]] for g in groups]
        def canon_entry(p):
            # a listed link keeps its own name, the directory part is canonical
            return os.path.join(os.path.realpath(os.path.dirname(p)), os.path.basename(p)) if os.path.islink(p) and both else os.path.realpath(p)
        bad_alias = [p for p in listed if canon_entry(p) != p]
        twice = sorted({p for p in listed if listed.count(p) > 1})
        same_real = sorted({p for p in listed if [canon_entry(q) for q in listed].count(canon_entry(p)) > 1})
        if both:
            # every link (whatever its spelling, chains included) that leads to a regular file is an entry of its own
            for name, _ in links:
                if os.path.isfile(name):
                    files[name] = files[os.path.realpath(name)]
            payload["files"] = sorted(files)
        if bad_alias or twice or same_real:
            ctx.violation({"kind": "file_listed_under_alias_paths", "dimension": "follow_alias"},
                          "with --follow-links one file is listed more than once / under a path that goes through a link: %s" % (bad_alias or twice or same_real)[:4],
                          payload, found_input=True)
            continue
        classes = {}
        for p, c in files.items():
            classes.setdefault(c, []).append(p)
        want = []
        for c, ps in classes.items():
            cnt = len(ps) if ml else len({os.stat(p).st_ino for p in ps})
            if (rf_over is not None and cnt > rf_over) or (rf_under is not None and cnt < rf_under):
                want.append(tuple(sorted(ps)))
        got = sorted(tuple(sorted(p.decode("utf-8", "surrogateescape") for p in g["files"])) for g in groups)
        if sorted(want) != got:
            payload["expected"] = sorted(want)
            ctx.violation({"kind": "partition_wrong", "dimension": "follow_alias"},
                          "with --follow-links the report is not the set of qualifying content classes of the tree", payload, found_input=True)
        shutil.rmtree(base, ignore_errors=True)


def hardlink_fallback_transform_check(ctx, n):
    """A file with SEVERAL hard-linked paths of which some cannot be processed (a `--no-copy` transform that fails for paths named
    bad*), a length-changing transform, and another replica of the content under a different inode: the readable path stands for
    the file (group.rs rehash tries the other paths of the inode), so the class has TWO replicas — reported by the default
    search with the good path and the copy together, not reported by --unique."""
    import stat as statmod
    from .. import core as _core
    _core.build_fclones()
    for i in range(n):
        rng = ctx.rng.fork()
        base = os.path.realpath(os.path.join(ctx.scratch, "hlfb%d" % i))
        shutil.rmtree(base, ignore_errors=True)
        bind = os.path.join(base, "bin")
        os.makedirs(bind)
        keep = rng.choice([3, 8, 40])
        script = os.path.join(bind, "failpath.sh")
        with open(script, "w") as f:
            f.write("#!/bin/sh\ncase \"$(basename \"$1\")\" in bad*) exit 1;; esac\nhead -c %d \"$1\"\n" % keep)
        os.chmod(script, 0o755)
        top = os.path.join(base, "t")
        ninodes = 2 + rng.below(7)
        good, copy, bad = [], [], []
        for k in range(ninodes):
            data = bytes([65 + k]) * 2 + treegen.content(rng.next(), 60 + 5 * k)
            d = os.path.join(top, "d", "k%d" % k)
            os.makedirs(d)
            # creation order varies: which path of the inode is tried first is not specified
            names = rng.shuffle(["good"] + ["bad%d" % j for j in range(1 + rng.below(7))])
            first = os.path.join(d, names[0])
            with open(first, "wb") as f:
                f.write(data)
            for nm in names[1:]:
                os.link(first, os.path.join(d, nm))
            good.append(os.path.join(d, "good"))
            bad += [os.path.join(d, nm) for nm in names if nm != "good"]
            e = os.path.join(top, "e")
            os.makedirs(e, exist_ok=True)
            cp = os.path.join(e, "copy_k%d" % k)
            with open(cp, "wb") as f:
                f.write(data[:keep] + treegen.content(rng.next(), 7 + k))        # equal after the transform, other length on disk
            copy.append(cp)
        unique = rng.chance(1, 3)
        opts = ["--transform", "failpath.sh $IN", "--no-copy"] + (["--unique"] if unique else []) + rng.choice([[], ["--threads", "1"]])
        env0 = {"FCLONES_VERIF_DISK_KIND": rng.choice(["ssd", "hdd"]), "PATH": bind + ":" + os.environ.get("PATH", "/usr/bin:/bin")}
        rc, out, err = treegen.fclones(["group", top, "-f", "json"] + opts, cwd=base, env=env0, timeout=120)
        ctx.count()
        ctx.distinct(("hlfb", i, ninodes, unique, keep), True)
        ctx.bump("hardlink_fallback_transform", "unique" if unique else "duplicates")
        payload = {"scenario": "%d files with hard links named bad* (transform fails for them) + good, and a copy of each under another inode" % ninodes,
                   "opts": opts, "transform": open(script).read(), "stderr": err.decode("utf-8", "replace")[-400:],
                   "replay": "cd %s && PATH=%s:$PATH fclones group t %s" % (base, bind, " ".join(opts))}
        if rc != 0:
            ctx.violation({"kind": "run_failed", "dimension": "hardlink_fallback"}, "fclones group failed (rc %d)" % rc, payload, found_input=True)
            continue
        _, groups = treegen.parse_json_report(out.decode("utf-8"))
        gl = [sorted(p.decode("utf-8", "surrogateescape") for p in g["files"]) for g in groups]
        payload["reported"] = gl
        listed = {p for g in gl for p in g}
        # (the bad* paths are other names of a file that WAS read - through its good path -: whether they are listed depends on
        # which path of the inode happened to be tried first; nothing is demanded about them)
        if unique:
            wrong = sorted(listed & (set(good) | set(copy)))
            if wrong:
                ctx.violation({"kind": "class_reported_but_filtered", "dimension": "hardlink_fallback"},
                              "--unique lists files that have a second replica (the hard-linked file and its copy): %s" % wrong[:4], payload, found_input=True)
        else:
            for g_, c_ in zip(good, copy):
                if not any(g_ in g and c_ in g for g in gl):
                    ctx.violation({"kind": "class_dropped", "dimension": "hardlink_fallback"},
                                  "the class {%s, %s} (2 replicas: a hard-linked file read through its good path, and a copy) is not reported as one group" % (g_, c_),
                                  payload, found_input=True)
                    break
        shutil.rmtree(base, ignore_errors=True)
