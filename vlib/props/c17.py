"""C17 — shell quoting of paths and arguments is lossless (engine T).

Proof obligations: coq/Props_C17.v (all non-empty byte strings / all lists of them).
Correspondence: arg::{quote, join, split, to_stfu8, from_stfu8} and SPECIAL_CHARS of the CURRENT
/repo (harness/src/bin/txt.rs) against the model extracted from coq/TextModel.v
(coq/driver/drv_T.ml), byte for byte, on
  * all strings of <= 3 (quick) / <= 4 (thorough) symbols over the 20-symbol alphabet,
  * all lists of <= 2 strings of <= 2 symbols (thorough: + all triples of <= 1 symbol and a sample
    of triples of <= 2 symbols),
  * random argument lists with strings of up to 200 symbols (bytes, Unicode scalars, broken UTF-8),
  * random &str inputs of `split` / `from_stfu8` (the whole state machine / decoder, not only what
    `quote` emits), random byte strings for the UTF-8 model (to_string_lossy, from_utf8);
direct oracle: split(join(map quote as)) == as on the implementation's own output;
real bash: `f() { printf '%s\\0' "$#" "$@"; }; f <join ...>` on the implementation's output, compared
with the arguments (oracle) and with the bash model `bash_words`; random strings of the modelled
shell fragment: bash model against real bash.
"""
import json
import os
import shutil
import subprocess

from .. import core

TXT = os.path.join(core.BIN, "txt")

ALPHA = [b"a", b" ", b"\t", b"\n", b"\r", b"'", b'"', b"\\", b"$", b"`", b"~", b"#", b"*",
         "\u017c".encode(), "\u20ac".encode(), "\U0001F600".encode(), "\u00a0".encode(),
         "\ufffd".encode(), b"\xff", b"\x7f"]
ALPHA_NAMES = ["a", "SP", "TAB", "LF", "CR", "'", '"', "\\", "$", "`", "~", "#", "*", "U+017C", "U+20AC",
               "U+1F600", "U+00A0", "U+FFFD", "xFF", "x7F"]

# extra symbols for random strings: every SPECIAL_CHARS member, other shell-active characters,
# truncated / overlong / surrogate UTF-8, letters that follow a backslash in STFU-8
EXTRA = [bytes([c]) for c in b"|&;<>(){}?+[]=%!^,:@-_./0123456789AFafxuntrb"] + \
        [b"\xc5", b"\xe2\x82", b"\xf0\x9f", b"\xf0\x9f\x98", b"\xc0\x80", b"\xed\xa0\x80", b"\xf4\x90\x80\x80",
         b"\x80", b"\xbf", b"\xfe", b"\x01", b"\x1b", b"\x1f", b"\xc2\x85", "\u2028".encode(), "\u3000".encode(),
         "\u02dc".encode(), b"\\x", b"\\'", b"$'", b"''"]


# second alphabet: characters that matter for option-like (`-name=value`) and assignment-like (`NAME=~/x`,
# `a=b:~c`) words, where bash expands a tilde after `=` / `:` and a `#` / `~` is special only in some positions
ALPHA2 = [b"a", b"=", b":", b"~", b"#", b"-", b" ", b"$", b"'", b"/"]


def rand_wordlike(rng):
    """option-like and assignment-like arguments with special characters before and after the `=`"""
    def piece(n):
        return b"".join(rng.choice(ALPHA2 + ALPHA + [b"b", b"x", b"_", b"1", b".", b"*", b"%", b"+", b"dir"]) for _ in range(rng.below(n + 1)))
    k = rng.below(4)
    if k == 0:
        return rng.choice([b"-", b"--"]) + piece(4) + b"=" + piece(4)
    if k == 1:
        return rng.choice([b"a", b"NAME", b"_x1", b"a b", b"-n"]) + b"=" + rng.choice([b"~", b"~/x", b"b:~c", b"~root", b":~", b"#", b"a#b", b"~+"]) + piece(2)
    if k == 2:
        return piece(3) + rng.choice([b"#", b"~", b"=", b":"]) + piece(3)
    return rng.choice([b"-", b"--"]) + piece(3)


def field(b):
    return ".".join(str(x) for x in b) if b else "-"


def unfield(f):
    return b"" if f in ("-", "") else bytes(int(x) for x in f.split("."))


def parse_words(s):
    """'ok w1 w2' -> list of bytes; anything else -> None"""
    t = s.split()
    if not t or t[0] != "ok":
        return None
    return [unfield(x) for x in t[1:]]


def strings_upto(n, alpha=ALPHA, nonempty=True):
    out = [b""]
    layer = [b""]
    for _ in range(n):
        layer = [s + a for s in layer for a in alpha]
        out += layer
    return out[1:] if nonempty else out


def rand_symbol(rng):
    k = rng.below(10)
    if k < 4:
        return rng.choice(ALPHA)
    if k < 6:
        return rng.choice(EXTRA)
    if k < 8:
        return bytes([1 + rng.below(255)])
    cp = rng.choice([rng.below(0x80) or 1, 0x80 + rng.below(0x780), 0x800 + rng.below(0xF800), 0x10000 + rng.below(0x100000)])
    if 0xD800 <= cp < 0xE000:
        cp = 0xFFFD
    return chr(cp).encode()


def rand_string(rng, maxsyms):
    n = 1 + rng.below(maxsyms)
    s = b"".join(rand_symbol(rng) for _ in range(n))
    return s.replace(b"\0", b"\x01") or b"a"


def rand_str(rng, maxsyms, alpha):
    """random valid UTF-8 (input of split / from_stfu8)"""
    n = rng.below(maxsyms + 1)
    s = b"".join(rng.choice(alpha) for _ in range(n))
    return s.decode("utf-8", "replace").encode()


SHELL_ALPHA = [b"a", b"b", b" ", b" ", b"\t", b"\n", b"'", b"'", b'"', b'"', b"\\", b"\\", b"$", b"$'", b"#", b"`", b"\\'",
               b"\\x41", b"\\x7", b"\\n", b"\\u0000e9", "\u017c".encode(), "\U0001F600".encode(), b"~", b"x", b"4", b"\r"]
STFU_ALPHA = [b"a", b"\\", b"\\\\", b"\\t", b"\\n", b"\\r", b"\\x", b"\\x4", b"\\x41", b"\\xff", b"\\xFg", b"\\u", b"\\u0000e9",
              b"\\u00d800", b"\\u110000", b"\\u01F600", b"\\u00004", b"x", b"u", b"4", b"F", b"'", "\u017c".encode(),
              "\u20ac".encode(), b"\t", b" ", b"\\u000041"]


def classify(arg, special):
    """quoting style the current quote() chooses (only used for the input-distribution histogram)"""
    try:
        s = arg.decode("utf-8")
    except UnicodeDecodeError:
        return "dollar"
    if any(ord(c) < 0x20 or c in "\x7f\ufffd'" for c in s):
        return "dollar"
    if any(c.encode() in special for c in s):
        return "single"
    return "bare"


def both(model, lines):
    impl = core.run_lines_parallel(TXT, lines)
    mod = core.run_lines_parallel(model, lines)
    if len(impl) != len(lines) or len(mod) != len(lines):
        raise RuntimeError("line count mismatch: %d cases, %d impl, %d model" % (len(lines), len(impl), len(mod)))
    return impl, mod


def roundtrip_ok(args, impl_line):
    """direct oracle on the implementation's own output of `qs`"""
    parts = impl_line.split(" | ")
    if len(parts) != 2:
        return False
    ws = parse_words(parts[1])
    return ws is not None and ws == list(args)


def symbols_of(b):
    """split a byte string into 'symbols' (UTF-8 characters or single bytes) for shrinking"""
    out, i = [], 0
    while i < len(b):
        n = 1
        for k in (2, 3, 4):
            ch = b[i:i + k]
            if len(ch) == k:
                try:
                    if len(ch.decode("utf-8")) == 1:
                        n = k
                        break
                except UnicodeDecodeError:
                    pass
        out.append(b[i:i + n])
        i += n
    return out


def shrink(args, fails):
    """greedy delta-debugging of a failing argument list; `fails(list_of_arglists) -> list of bool`"""
    cur = [symbols_of(a) for a in args]
    improved = True
    while improved:
        improved = False
        cands = []
        for i in range(len(cur)):
            if len(cur) > 1:
                cands.append(cur[:i] + cur[i + 1:])
            for j in range(len(cur[i])):
                if len(cur[i]) > 1:
                    cands.append(cur[:i] + [cur[i][:j] + cur[i][j + 1:]] + cur[i + 1:])
        if not cands:
            break
        res = fails([[b"".join(a) for a in c] for c in cands])
        for c, bad in zip(cands, res):
            if bad:
                cur = c
                improved = True
                break
    out = [b"".join(a) for a in cur]
    # every reported minimal case must fail when evaluated on its own; otherwise keep the original case
    if fails([out]) == [True]:
        return out
    return list(args)


def impl_roundtrip_fails(arglists):
    lines = ["qs " + " ".join(field(a) for a in al) for al in arglists]
    out = core.run_lines(TXT, lines)
    return [not roundtrip_ok(al, o) for al, o in zip(arglists, out)]


def neighbourhood(args):
    """argument lists near a disagreeing case: windows of <= 4 symbols of each argument, and all strings of
    <= 2 symbols over the symbols that occur in it"""
    seen, out = set(), []
    syms = []
    for a in args:
        ss = symbols_of(a)
        syms += ss
        for w in (1, 2, 3, 4):
            for i in range(0, max(0, len(ss) - w) + 1):
                x = b"".join(ss[i:i + w])
                if x and x not in seen:
                    seen.add(x)
                    out.append([x])
    uniq = []
    for s in syms:
        if s not in uniq:
            uniq.append(s)
    uniq = uniq[:12]
    for x in strings_upto(3, uniq):
        if x not in seen:
            seen.add(x)
            out.append([x])
    for x in strings_upto(2, ALPHA):
        if x not in seen:
            seen.add(x)
            out.append([x])
    return out


# ---------------------------------------------------------------------------------------------
# real bash

BASH = shutil.which("bash") or "/bin/bash"
BASH_ENV = {"HOME": "/tildehome", "PATH": "/nonexistent", "ENV": "", "BASH_ENV": ""}


def _bash_records(ctx, script, cwd, env, part):
    """run a script, return {fragment index: words} for the records `f` printed"""
    path = os.path.join(ctx.scratch, "bash_main.sh")
    with open(path, "wb") as fh:
        fh.write(script)
    p = subprocess.run([BASH, "--norc", "--noprofile", path], cwd=cwd, env=env, stdout=subprocess.PIPE,
                       stderr=subprocess.PIPE, timeout=600)
    toks = p.stdout.split(b"\0")
    inpart = set(part)
    got, k, dup = {}, 0, False
    while k < len(toks) - 1:
        try:
            n = int(toks[k])
        except ValueError:
            break
        if n < 0 or k + 1 + n > len(toks) - 1:
            break
        rec = toks[k + 1:k + 1 + n]
        k += 1 + n
        if rec and rec[0].startswith(b"@@") and rec[0].endswith(b"@@") and rec[0][2:-2].isdigit():
            idx = int(rec[0][2:-2])
            if idx in inpart:
                if idx in got:
                    dup = True
                else:
                    got[idx] = rec[1:]
    if dup or k < len(toks) - 1:
        got.pop(max(got), None) if got else None      # unparsable tail / duplicate: do not trust the batch as complete
    return got


def run_bash(ctx, frags, locale="C.UTF-8"):
    """Evaluate `f @@i@@ <frag>` for every fragment (bytes) in real bash; returns for each fragment the list of
    words bash passed (bytes) or None (syntax error / no call of f / bash died on it).
    Every fragment lives in its own sourced file, so an unbalanced quote or a syntax error cannot swallow or
    shift the records of its neighbours, and every record carries the index of its fragment."""
    cwd = os.path.join(ctx.scratch, "bashcwd")
    if not os.path.isdir(cwd):
        os.makedirs(cwd)
        for n in ("a", "aa", "b"):
            open(os.path.join(cwd, n), "w").close()
    fdir = os.path.join(ctx.scratch, "bashfrag")
    os.makedirs(fdir, exist_ok=True)
    res = [None] * len(frags)
    todo = list(range(len(frags)))
    batch = 400
    rounds = 0
    env = dict(BASH_ENV)
    env["LC_ALL"] = locale
    while todo:
        rounds += 1
        part, todo = todo[:batch], todo[batch:]
        # fast path: all fragments of the batch as lines of one script.  Records carry their index, so nothing can
        # be misattributed; if any index is missing (a syntax error, an open quote swallowing the following lines)
        # the whole batch is redone with one sourced file per fragment, which confines such damage.
        script = b"f() { printf '%s\\0' \"$#\" \"$@\"; }\n" + b"".join(b"f @@%d@@ " % i + frags[i] + b"\n" for i in part)
        fast = _bash_records(ctx, script, cwd, env, part)
        if len(fast) == len(part):
            for i in part:
                res[i] = fast[i]
            continue
        for i in part:
            with open(os.path.join(fdir, "%d.sh" % i), "wb") as fh:
                fh.write(b"f @@%d@@ " % i + frags[i] + b"\n")
        script = b"f() { printf '%s\\0' \"$#\" \"$@\"; }\n" + b"".join(b". %s/%d.sh\n" % (fdir.encode(), i) for i in part)
        got = _bash_records(ctx, script, cwd, env, part)
        pos_of = {i: n for n, i in enumerate(part)}
        last = max((pos_of[i] for i in got), default=-1)
        requeue, first_after = [], True
        for i in part:
            if i in got:
                res[i] = got[i]
            elif pos_of[i] < last:
                res[i] = None                      # the script went on after it: this fragment produced no record
            elif first_after:
                res[i] = None                      # the script stopped here
                first_after = False
            else:
                requeue.append(i)
            os.remove(os.path.join(fdir, "%d.sh" % i))
        todo = requeue + todo
    return res


def rand_shell_fragment(rng):
    """a random string of the fragment of shell syntax the bash model covers (and a bit outside)"""
    def bare():
        return b"".join(rng.choice([b"a", b"b", b"~", b"#", b"=", b"%", b"+", b"!", b"-", b".", b"/", b",", b":", b"@", b"^", b"=~", b":~", b"a#",
                                    "\u017c".encode(), "\u00a0".encode(), "\U0001F600".encode(), b"_", b"0"])
                        for _ in range(1 + rng.below(3)))

    def sq():
        return b"'" + b"".join(rng.choice([b"a", b" ", b"\\", b'"', b"$", b"`", b"*", b"~", b"#", b"\t", "\u20ac".encode(), b"\\n"])
                               for _ in range(rng.below(4))) + b"'"

    def dq():
        return b"$'" + b"".join(rng.choice([b"a", b" ", b"\\\\", b"\\'", b"\\n", b"\\t", b"\\r", b"\\x41", b"\\xFF", b"\\x7F", b"\\x01",
                                            b"\\xC5", b"\\xe2\\x82\\xac", b'"', b"$", b"*", b"~", "\u017c".encode(), b"\\x0A", b"\\x27"])
                                for _ in range(rng.below(5))) + b"'"
    words = []
    for _ in range(1 + rng.below(3)):
        words.append(b"".join(rng.choice([bare, sq, dq])() for _ in range(1 + rng.below(3))))
    return b" ".join(words)


# ---------------------------------------------------------------------------------------------

def run(ctx):
    ctx.rule = ("three quoting entry points (arg::join = Arg::quote per argument, the method Arg::quote alone, Path::quote): "
                "all strings of <= 4 (thorough 5) symbols over the word alphabet {a = : ~ # - SP $ ' /} and random option-like / "
                "assignment-like words (-name=value, NAME=~/x, a=b:~c with special characters on both sides of the =), all through "
                "arg::split and real bash with HOME=/tildehome; "
                "argument lists for arg::join/quote/split: all strings of <= %d symbols over the 20-symbol alphabet "
                "{a SP TAB LF CR ' \" \\ $ ` ~ # * U+017C U+20AC U+1F600 U+00A0 U+FFFD xFF x7F}; all pairs of strings of <= 2 symbols; "
                "%s random lists of 1-4 strings of <= 200 symbols (alphabet, SPECIAL_CHARS, random bytes 1..255, random scalars, "
                "truncated/overlong/surrogate UTF-8); random &str inputs of split and from_stfu8; random byte strings for the UTF-8 model; "
                "real bash on the implementation's quoted output and on random strings of the modelled shell fragment. "
                "A case is one command line of the txt protocol; non-trivial = the quoted form differs from the raw bytes "
                "(or, for decoder/splitter inputs, the input contains a quote or backslash); distinct = distinct command line"
                % (ctx.pick(3, 4), "thorough: all triples of <= 1 symbol, 300k random triples of <= 2 symbols; " if not ctx.quick else ""))
    ctx.assumptions = ["arguments are non-empty and NUL-free (OS argument vectors)", "bash 5.x, non-interactive, arguments of a simple command; "
                       "locale C.UTF-8 (thorough: also C)"]
    ctx.trusted.append("C17: stfu8-0.2.6 and std UTF-8 validation are modelled from their sources (coq/TextModel.v) and compared with the "
                       "implementation on every run; the bash model bash_words is compared with /usr/bin/bash on every run")
    ctx.use_coq()
    model = core.build_model("T")
    core.build_harness(["txt"])

    if ctx.replay:
        rp = json.load(open(ctx.replay))
        lines = rp.get("lines", [])
    else:
        lines = None

    # SPECIAL_CHARS (constant regenerated from the implementation)
    impl_sp, mod_sp = both(model, ["sp"])
    special = [bytes([b]) for b in unfield(impl_sp[0])] if all(x < 128 for x in unfield(impl_sp[0])) else []
    ctx.count()
    if sorted(unfield(impl_sp[0])) != sorted(unfield(mod_sp[0])):      # a set: the order of the array is irrelevant
        ctx.pending = True
        core.log("SPECIAL_CHARS differ: impl %s model %s" % (impl_sp[0], mod_sp[0]))

    cases = []   # (line, args or None)

    def add_qs(args):
        cases.append(("qs " + " ".join(field(a) for a in args), list(args)))

    force_bash = set()     # lines whose quoted form always goes through real bash

    def add_aqs(a):
        cases.append(("aqs " + field(a), [a]))

    if lines is not None:
        for l in lines:
            t = l.split()
            cases.append((l, [unfield(x) for x in t[1:]] if t and t[0] in ("qs", "aqs") else None))
    else:
        rng = ctx.rng
        singles = strings_upto(ctx.pick(3, 4))
        for s in singles:
            add_qs([s])
            add_aqs(s)
        for s in strings_upto(ctx.pick(4, 5), ALPHA2):
            add_qs([s])
            add_aqs(s)
        for _ in range(ctx.pick(3000, 60000)):
            w = rand_wordlike(rng).replace(b"\0", b"\x01") or b"-"
            add_aqs(w)
            add_qs([w] if rng.chance(1, 2) else [rand_string(rng, 3), w, rand_wordlike(rng).replace(b"\0", b"\x01") or b"a"])
            force_bash.add(cases[-1][0])
        upto2 = strings_upto(2)
        for a in upto2:
            for b in upto2:
                add_qs([a, b])
        if not ctx.quick:
            for a in ALPHA:
                for b in ALPHA:
                    for c in ALPHA:
                        add_qs([a, b, c])
            for _ in range(300000):
                add_qs([rng.choice(upto2), rng.choice(upto2), rng.choice(upto2)])
        for _ in range(ctx.pick(4000, 100000)):
            n = 1 + rng.below(4)
            add_qs([rand_string(rng, rng.choice([3, 8, 30, 200])) for _ in range(n)])
        add_qs([])
        for _ in range(ctx.pick(6000, 150000)):
            cases.append(("s " + field(rand_str(rng, rng.choice([4, 8, 20]), SHELL_ALPHA)), None))
        for _ in range(ctx.pick(6000, 150000)):
            cases.append(("d " + field(rand_str(rng, rng.choice([3, 6, 12]), STFU_ALPHA)), None))
        for _ in range(ctx.pick(4000, 100000)):
            b = rand_string(rng, rng.choice([3, 8, 40]))
            k = rng.below(3)
            cases.append((("e " if k == 0 else "l " if k == 1 else "u ") + field(b), None))
        for s in strings_upto(2, [bytes([x]) for x in (0x61, 0x7f, 0x80, 0xbf, 0xc2, 0xc5, 0xe0, 0xa0, 0xed, 0x9f, 0xf0, 0x90, 0xf4, 0x8f, 0xf5, 0xff, 0x5c, 0x27)]):
            cases.append(("e " + field(s), None))
            cases.append(("l " + field(s), None))
            cases.append(("u " + field(s), None))
        for s in strings_upto(3, [bytes([x]) for x in (0xe2, 0x82, 0xac, 0xf0, 0x9f, 0x98, 0x80, 0x41)]):
            cases.append(("e " + field(s), None))
            cases.append(("l " + field(s), None))

    all_lines = [c[0] for c in cases]
    impl, mod = both(model, all_lines)

    mismatches = []      # (line, args, impl, model)
    oracle_fail = []     # (args, impl)
    for (line, args), i, m in zip(cases, impl, mod):
        ctx.count()
        cmd = line.split(" ", 1)[0]
        ctx.bump("command", cmd)
        if i.startswith("EXN") or m.startswith("EXN"):
            mismatches.append((line, args, i, m))
            continue
        if args is not None:
            ctx.bump("args_per_line", len(args))
            for a in args:
                st = classify(a, special)
                ctx.bump("quoting_style", st)
                ctx.bump("arg_bytes", "1-2" if len(a) <= 2 else "3-8" if len(a) <= 8 else "9-64" if len(a) <= 64 else "65+")
                try:
                    a.decode("utf-8")
                    ctx.bump("arg_utf8", "valid")
                except UnicodeDecodeError:
                    ctx.bump("arg_utf8", "invalid")
            joined = i.split(" | ")[0]
            ctx.distinct(line, unfield(joined) != b" ".join(args))
            if not roundtrip_ok(args, i):
                oracle_fail.append((args, i))
        else:
            raw = unfield(line.split()[1]) if len(line.split()) > 1 else b""
            ctx.distinct(line, any(c in raw for c in b"\\'\"$") or cmd in ("e", "l", "u"))
            if cmd in ("s", "d"):
                ctx.bump(cmd + "_result", i.split()[0])
        if i != m:
            mismatches.append((line, args, i, m))
        elif len(ctx.samples) < 6 and args is not None and len(args) == 2 and b"'" in args[0]:
            ctx.sample({"case": line, "impl": i, "model": m})

    # --- direct oracle failures: concrete failing inputs
    if oracle_fail:
        args, i = min(oracle_fail, key=lambda x: (sum(len(a) for a in x[0]), len(x[0])))
        small = shrink(args, impl_roundtrip_fails)
        line = "qs " + " ".join(field(a) for a in small)
        out = core.run_lines(TXT, [line])[0]
        ctx.violation({"kind": "split_quote_roundtrip"},
                      "split(join(map quote args)) != args for args=%r: implementation printed and re-read %s (%d failing cases this run)"
                      % (small, out, len(oracle_fail)),
                      {"args": [list(a) for a in small], "lines": [line], "impl": out,
                       "replay_cmd": "echo '%s' | %s" % (line, TXT)}, found_input=True)

    # --- real bash on the implementation's output
    bash_cases = []       # (args, joined bytes)
    if lines is None:
        pool = [c for c, i in zip(cases, impl) if c[1] and all(a and b"\0" not in a for a in c[1])]
        pool_i = {c[0]: i for c, i in zip(cases, impl)}
        def short(c):
            return len(c[1]) == 1 and len(c[1][0]) <= 20 and len(symbols_of(c[1][0])) <= 5
        chosen = [c for c in pool if (short(c) and c[0].startswith("qs ")) or c[0] in force_bash]
        rest = [c for c in pool if not short(c) and c[0] not in force_bash]
        r2 = ctx.rng.fork()
        extra_n = ctx.pick(6000, 200000)
        step = max(1, len(rest) // extra_n)
        chosen += rest[r2.below(step)::step]
        for c in chosen:
            bash_cases.append((c[1], unfield(pool_i[c[0]].split(" | ")[0])))
    else:
        for (line, args), i in zip(cases, impl):
            if args and all(a and b"\0" not in a for a in args):
                bash_cases.append((args, unfield(i.split(" | ")[0])))
    locales = ["C.UTF-8"] if ctx.quick else ["C.UTF-8", "C"]
    bash_fail = []
    for loc in locales:
        got = run_bash(ctx, [j for _, j in bash_cases], loc)
        for (args, j), g in zip(bash_cases, got):
            ctx.count()
            ctx.bump("bash_locale", loc)
            if g != list(args):
                bash_fail.append((args, j, g, loc))
    # bash model on the same strings (correspondence of bash_words with real bash, and C17_bash on them)
    if bash_cases:
        mb = core.run_lines_parallel(model, ["b " + field(j) for _, j in bash_cases])
        for (args, j), m in zip(bash_cases, mb):
            if parse_words(m) != list(args):
                mismatches.append(("b " + field(j), list(args), "bash-model-expected ok " + " ".join(field(a) for a in args), m))
    if bash_fail:
        args, j, g, loc = min(bash_fail, key=lambda x: (sum(len(a) for a in x[0]), len(x[0])))

        def bash_fails(arglists):
            outs = core.run_lines(TXT, ["j " + " ".join(field(a) for a in al) for al in arglists])
            got = run_bash(ctx, [unfield(o) for o in outs], loc)
            return [gg != list(al) for al, gg in zip(arglists, got)]
        small = shrink(args, bash_fails)
        jl = "j " + " ".join(field(a) for a in small)
        js = unfield(core.run_lines(TXT, [jl])[0])
        gs = run_bash(ctx, [js], loc)[0]
        ctx.violation({"kind": "bash_roundtrip"},
                      "bash decodes the quoted form %r of args %r to %r (locale %s; %d failing cases this run)" % (js, small, gs, loc, len(bash_fail)),
                      {"args": [list(a) for a in small], "quoted": list(js), "bash_words": None if gs is None else [list(x) for x in gs],
                       "lines": ["qs " + " ".join(field(a) for a in small)],
                       "replay_cmd": "cd $(mktemp -d) && env -i HOME=/tildehome PATH=/nonexistent LC_ALL=%s bash --norc --noprofile -c %s"
                                     % (loc, "'f() { printf \"%s\\n\" \"$#\" \"$@\"; }; f <quoted bytes>'")}, found_input=True)

    # random strings of the modelled fragment: bash model vs real bash
    if lines is None:
        r3 = ctx.rng.fork()
        frags = [rand_shell_fragment(r3) for _ in range(ctx.pick(12000, 60000))]
        mb = core.run_lines_parallel(model, ["b " + field(f) for f in frags])
        got = run_bash(ctx, frags, "C.UTF-8")
        nb = 0
        for f, m, g in zip(frags, mb, got):
            ctx.count()
            mw = parse_words(m)
            ctx.bump("bash_model_result", "some" if mw is not None else "none")
            if mw is not None:
                ctx.distinct(("b", f), True)
                if g != mw:
                    nb += 1
                    if nb == 1:
                        mismatches.append(("b " + field(f), None, "real-bash " + repr(g), m))

    # --- Path::quote: the second quoting entry point (dry-run scripts, logs).  Path::from normalises the bytes
    #     (std::path components, modelled by path_norm and compared in C10); the quoted form must be the model's
    #     quote of the NORMAL FORM, and split / real bash must give back the normal form.
    if lines is None:
        r4 = ctx.rng.fork()
        pq_in = [b""] + strings_upto(ctx.pick(3, 4)) + strings_upto(ctx.pick(3, 4), ALPHA2)
        pq_in += [(rand_wordlike(r4).replace(b"\0", b"\x01") or b"-") for _ in range(ctx.pick(1500, 30000))]
        for _ in range(ctx.pick(3000, 60000)):
            parts = [rand_string(r4, r4.choice([1, 2, 4, 20])).replace(b"/", b"_") for _ in range(1 + r4.below(3))]
            a = r4.choice([b"", b"/", b"./", b"../"]) + r4.choice([b"/", b"//", b"/./", b"/../"]).join(parts) + r4.choice([b"", b"", b"/", b"/."])
            pq_in.append(a)
    else:
        pq_in = [unfield(l.split()[1]) for l in lines if l.startswith("pqs ") and len(l.split()) > 1]

    def pq_eval(inputs, with_bash=True, loc="C.UTF-8"):
        """(impl lines, split failures, bash failures) of Path::quote on the implementation alone"""
        outs = core.run_lines_parallel(TXT, ["pqs " + field(a) for a in inputs])
        sfail, quoted = [], []
        for a, o in zip(inputs, outs):
            ps = o.split(" | ")
            ok = len(ps) == 3 and ps[2] == "ok " + ps[0]
            sfail.append(not ok)
            quoted.append((unfield(ps[0]), unfield(ps[1])) if len(ps) == 3 else None)
        bfail = [False] * len(inputs)
        if with_bash:
            idx = [k for k, q in enumerate(quoted) if q is not None]
            got = run_bash(ctx, [quoted[k][1] for k in idx], loc)
            for k, g in zip(idx, got):
                bfail[k] = (g != [quoted[k][0]])
        return outs, sfail, bfail, quoted

    if pq_in:
        plines = ["pqs " + field(a) for a in pq_in]
        pimpl, sfail, bfail, quoted = pq_eval(pq_in)
        pmod = core.run_lines_parallel(model, plines)
        for a, l, i, m, sf, bf in zip(pq_in, plines, pimpl, pmod, sfail, bfail):
            ctx.count(2)
            ctx.bump("command", "pqs")
            ctx.bump("path_quote_input", "needs_normalisation" if (b"//" in a or b"/." in a or a.endswith(b"/") and len(a) > 1 or a == b"") else "normal_form")
            ctx.distinct(l, i.split(" | ")[0] != i.split(" | ")[1] if " | " in i else True)
            if i != m:
                mismatches.append((l, None, i, m))
        for kind, flags, what in (("path_quote_split_roundtrip", sfail, "arg::split"), ("path_quote_bash_roundtrip", bfail, "bash")):
            bad = [a for a, f in zip(pq_in, flags) if f]
            if not bad:
                continue
            a0 = min(bad, key=len)
            sel = 1 if kind.endswith("split_roundtrip") else 2
            small = shrink([a0], lambda als: [pq_eval([al[0] if al else b""], with_bash=(sel == 2))[sel][0] for al in als])
            o = core.run_lines(TXT, ["pqs " + field(small[0])])[0]
            ps = o.split(" | ")
            gb = run_bash(ctx, [unfield(ps[1])])[0] if len(ps) == 3 else None
            ctx.violation({"kind": kind},
                          "Path::from(%r).quote() = %r is decoded by %s to %s, not to the path %r (%d failing paths this run)"
                          % (small[0], unfield(ps[1]) if len(ps) == 3 else o, what, ps[2] if sel == 1 and len(ps) == 3 else repr(gb),
                             unfield(ps[0]) if len(ps) == 3 else small[0], len(bad)),
                          {"path": list(small[0]), "lines": ["pqs " + field(small[0])], "impl": o,
                           "bash_words": None if gb is None else [list(x) for x in gb],
                           "replay_cmd": "echo 'pqs %s' | %s" % (field(small[0]), TXT)}, found_input=True)

    # --- correspondence failures
    if mismatches or getattr(ctx, "pending", False):
        have_input = any(v[3] for v in ctx.violations)
        if getattr(ctx, "pending", False):
            mismatches.insert(0, ("sp", None, impl_sp[0], mod_sp[0]))
        line, args, i, m = mismatches[0]
        payload = {"lines": [x[0] for x in mismatches[:20]], "impl": i, "model": m, "disagreements": len(mismatches),
                   "correspondence": "arg.rs / stfu8 as compiled from the repository vs coq/TextModel.v (line protocol of harness/src/bin/txt.rs)",
                   "replay_cmd": "echo '%s' | %s ; echo '%s' | %s" % (line, TXT, line, model)}
        if not have_input:
            # search the neighbourhood of the disagreeing cases with the direct oracles
            found = None
            cand = []
            for x in mismatches[:10]:
                if x[1]:
                    cand += neighbourhood(x[1])
            if not cand:
                cand = [[s] for s in strings_upto(3)]
            cand = cand[:60000]
            bad = impl_roundtrip_fails(cand) if cand else []
            for al, b in zip(cand, bad):
                if b:
                    found = ("split", al)
                    break
            if found is None and cand:
                sub = [al for al in cand if all(a and b"\0" not in a for a in al)][:20000]
                outs = core.run_lines_parallel(TXT, ["j " + " ".join(field(a) for a in al) for al in sub])
                got = run_bash(ctx, [unfield(o) for o in outs])
                for al, o, g in zip(sub, outs, got):
                    if g != list(al):
                        found = ("bash", al, unfield(o), g)
                        break
            if found and found[0] == "split":
                l2 = "qs " + " ".join(field(a) for a in found[1])
                ctx.violation({"kind": "split_quote_roundtrip"}, "model and implementation disagree (%s: impl %s, model %s); nearby failing input: "
                              "split(quote %r) does not round-trip" % (line, i[:200], m[:200], found[1]),
                              dict(payload, lines=[l2] + payload["lines"], args=[list(a) for a in found[1]]), found_input=True)
            elif found:
                l2 = "qs " + " ".join(field(a) for a in found[1])
                ctx.violation({"kind": "bash_roundtrip"}, "model and implementation disagree (%s: impl %s, model %s); nearby failing input: "
                              "bash reads the quoted form %r of %r as %r" % (line, i[:200], m[:200], found[2], found[1], found[3]),
                              dict(payload, lines=[l2] + payload["lines"], args=[list(a) for a in found[1]]), found_input=True)
            else:
                ctx.violation({"kind": "model_mismatch", "cmd": line.split(" ")[0]},
                              "model and implementation disagree on `%s`: impl %s, model %s (%d disagreements); no argument list in the "
                              "neighbourhood fails to round-trip" % (line[:200], i[:200], m[:200], len(mismatches)), payload, found_input=False)
        else:
            core.log("model/implementation disagreement on %d cases (first: %s impl=%s model=%s)" % (len(mismatches), line, i, m))
    ctx.extra["exhaustive"] = False
    ctx.extra["bounded_exhaustive"] = "all strings of <= %d alphabet symbols; all pairs of strings of <= 2 symbols" % ctx.pick(3, 4)
    ctx.extra["bash_runs"] = len(bash_cases) * len(locales)
