"""C16 — globs match as documented; directory pruning is conservative (engine P).

Proof obligations: coq/Props_C16.v (all globs / all strings, model GlobModel.v).
Correspondence: the extracted model (coq/driver/drv_P.ml) and the real Pattern / Regex / PathSelector
(harness/src/bin/glob.rs) evaluate the same (glob, paths) lines: outcome (ok/err/panic), emitted
regex text (Pattern's Display), full match, prefix match, partial match of every ancestor directory,
with and without --ignore-case, directly and through PathSelector (relative patterns anchored at a
base dir containing '-', '.', 'ż').  Extra sweeps: get_fixed_prefix on arbitrary regex-like strings,
to_lowercase / case-insensitive matching on the whole modelled character domain.
Direct oracle (model-free): whenever the implementation fully matches a path, every ancestor
directory must pass matches_partially / matches_dir.
"""
import json
import os

from .. import core

GLOB = os.path.join(core.BIN, "glob")

TOKENS = ["a", "B", ".", "-", "+", "(", "ż", "1", "?", "*", "**", "/", "[ab]", "[!a]", "{a,b/c}",
          "@(a|b)", "?(a)", "+(a)", "*(a|b)", "\\*"]
# rarer tokens, used in the random part only (class syntax outside the fragment is differential only)
EXTRA_TOKENS = ["$", "^", "\\$", "|", ",", ")", "}", "{", "]", "[", "[a-c]", "[!a-b1]", "[.-]", "[a\\]", "[^a]", "[]",
                "[b-a]", "!(a)", "{a,{b,c}}", "@(a|?(b))", "{a", "?(", "\\", "\\\\", "#", "&", "~", " ", "\n", "Ż", "b",
                "*(a/b)", "{,a}", "+()", "[ż]", "[!ż]", "[A-Z]", "é", "\\a", "\\/", "@(*|b)", "{**,a}"]
# groups whose alternatives contain the OTHER group kind's delimiters as literals: `( | )` are ordinary characters
# inside {..}, `{ , }` are ordinary inside @() ?() +() *() (p_any_char's none_of set depends on the enclosing scope)
XTOKENS = ["{a(,b}", "{a|b,c}", "{x(1),y}", "{a),b}", "@(a,b|c)", "?(a{)", "+(a}|b)", "*(a,|b)", "{a,@(b|c)}", "@(a|{b,c})"]
XCONTEXT = ["a", "/", "*", ".", "B", "**"]
# backslash-escaped NON-metacharacters: `\\c` matches exactly c (it must not become the regex escape \\d, \\w, \\b ...)
ETOKENS = ["\\a", "\\d", "\\w", "\\s", "\\b", "\\B", "\\A", "\\z", "\\1", "\\7", "\\<", "\\>", "\\ż", "\\Ż", "\\n", "\\/", "\\ "]
ECONTEXT = ["a", "1", "/", "*", "?", ".", "[ab]"]
NAMES = ["a", "B", "b", "a.1", "a-1", "ż", "(", "ab"]
EXTRA_NAMES = ["a\nb", "\n", "*", "Ż", "a+", "1", ".", "-", "+", "c", "A", "$", "a$"]
BASE = "/d-1/x.y/ż"
CI_EXCLUDED = {0x130, 0x17F}          # see GlobModel.ci_modelled
DOMAIN_MAX = 0x17F


def enc(s):
    return ".".join(str(ord(c)) for c in s) or "-"


def dec(f):
    return "" if f in ("-", "") else "".join(chr(int(x)) for x in f.split("."))


def all_paths(maxc):
    out, layer = [], [[]]
    for _ in range(maxc):
        layer = [p + [n] for p in layer for n in NAMES]
        out += ["/".join(p) for p in layer]
    return out


# expansions used to build paths that have a chance to match a token sequence
EXPAND = {"?": ["a", "B", "ż", "/", "\n"], "*": ["", "a", "ab", "a.1", "a/b", "B\n"], "**": ["", "a", "a/b", "a/b/ab", "\n/a"],
          "[ab]": ["a", "b", "B", "c"], "[!a]": ["b", "a", "A", "/", "ż"], "{a,b/c}": ["a", "b/c", "b", "A", "B/c"],
          "@(a|b)": ["a", "b", "ab", "B"], "?(a)": ["", "a", "aa", "A"], "+(a)": ["", "a", "aa", "aA"],
          "*(a|b)": ["", "a", "ba", "abB", "c"], "\\*": ["*", "a"], "/": ["/", "/", "a"],
          "{a(,b}": ["a(", "b", "{a(,b}", "a", "A("], "{a|b,c}": ["a|b", "c", "{a|b,c}", "a", "b"],
          "{x(1),y}": ["x(1)", "y", "{x(1),y}", "x", "X(1)"], "{a),b}": ["a)", "b", "{a),b}", "a"],
          "@(a,b|c)": ["a,b", "c", "@(a,b|c)", "a", "b", "C"], "?(a{)": ["", "a{", "?(a{)", "a", "a{a{"],
          "+(a}|b)": ["a}", "b", "a}ba}", "+(a}|b)", "", "B"], "*(a,|b)": ["", "a,", "ba,b", "*(a,|b)", "a"],
          "{a,@(b|c)}": ["a", "b", "c", "{a,@(b|c)}", "bc"], "@(a|{b,c})": ["a", "b", "c", "@(a|{b,c})", "b,c"]}


def guided_path(rng, toks):
    out = []
    for t in toks:
        if t in EXPAND:
            out.append(rng.choice(EXPAND[t]) if rng.chance(5, 6) else rng.choice(NAMES))
        elif t.startswith("\\") and len(t) == 2:
            r = rng.below(8)
            out.append(t[1] if r < 5 else (rng.choice("7 d<a_") if r < 7 else t[1].swapcase()))
        elif len(t) == 1:
            r = rng.below(12)
            out.append(t if r < 9 else (t.swapcase() if r < 11 else rng.choice(NAMES)))
        else:
            out.append(rng.choice(["a", "b", "", "c", "ab", "b/c"]))
    s = "".join(out)
    if rng.chance(1, 6):
        s += rng.choice(["", "/", "/a", "a", "\n", "/ab/B"])
    if len(s) > 1 and rng.chance(1, 5):       # drop one character (e.g. "a//B" -> "a/B": one separator where the glob has two)
        i = rng.below(len(s))
        s = s[:i] + s[i + 1:]
    return s


# ------------------------------------------------------------------------------------------------
# independent reference matcher (model-free): the documented semantics written directly in Python for
# globs given as sequences of TOKENS (no parsing: each token has a fixed meaning; only runs of '*' are
# re-tokenised as the grammar does: '**' first)

TOKEN_AST = {"?": ("one",), "*": ("star",), "**": ("dstar",), "/": ("sep",), "[ab]": ("class", False, "ab"),
             "[!a]": ("class", True, "a"), "{a,b/c}": ("alt", "once", [[("lit", "a")], [("lit", "b"), ("sep",), ("lit", "c")]]),
             "@(a|b)": ("alt", "once", [[("lit", "a")], [("lit", "b")]]), "?(a)": ("alt", "opt", [[("lit", "a")]]),
             "+(a)": ("alt", "plus", [[("lit", "a")]]), "*(a|b)": ("alt", "many", [[("lit", "a")], [("lit", "b")]]),
             "\\*": ("lit", "*"),
             "{a(,b}": ("alt", "once", [[("lit", "a"), ("lit", "(")], [("lit", "b")]]),
             "{a|b,c}": ("alt", "once", [[("lit", "a"), ("lit", "|"), ("lit", "b")], [("lit", "c")]]),
             "{x(1),y}": ("alt", "once", [[("lit", "x"), ("lit", "("), ("lit", "1"), ("lit", ")")], [("lit", "y")]]),
             "{a),b}": ("alt", "once", [[("lit", "a"), ("lit", ")")], [("lit", "b")]]),
             "@(a,b|c)": ("alt", "once", [[("lit", "a"), ("lit", ","), ("lit", "b")], [("lit", "c")]]),
             "?(a{)": ("alt", "opt", [[("lit", "a"), ("lit", "{")]]),
             "+(a}|b)": ("alt", "plus", [[("lit", "a"), ("lit", "}")], [("lit", "b")]]),
             "*(a,|b)": ("alt", "many", [[("lit", "a"), ("lit", ",")], [("lit", "b")]]),
             "{a,@(b|c)}": ("alt", "once", [[("lit", "a")], [("alt", "once", [[("lit", "b")], [("lit", "c")]])]]),
             "@(a|{b,c})": ("alt", "once", [[("lit", "a")], [("alt", "once", [[("lit", "b")], [("lit", "c")]])]])}
for _t in ETOKENS:
    TOKEN_AST[_t] = ("sep",) if _t[1] == "/" else ("lit", _t[1])
REF_TOKENS = set(TOKENS) | set(XTOKENS) | set(ETOKENS)


def ref_ast(toks):
    """None if some token has no fixed meaning here"""
    out, i = [], 0
    while i < len(toks):
        t = toks[i]
        if t in ("*", "**"):
            n = 0
            while i < len(toks) and toks[i] in ("*", "**"):
                n += len(toks[i])
                i += 1
            if i < len(toks) and (toks[i].startswith("(") or toks[i].startswith("*(")):
                return None          # "*" + "*(a|b)" is "**" + "(a|b)": no fixed token meaning
            out += [("dstar",)] * (n // 2) + [("star",)] * (n % 2)
            continue
        if t in TOKEN_AST:
            out.append(TOKEN_AST[t])
        elif len(t) == 1 and t not in "\\{[":
            if t == "(" and i > 0 and toks[i - 1] in ("?", "+", "@", "!"):
                return None
            out.append(("lit", t))
        else:
            return None
        i += 1
    return out


def _ceq(ci, a, b):
    return a == b or (ci and a.lower() == b.lower())


def _seq_ends(seq, s, starts, ci):
    cur = set(starts)
    for node in seq:
        nxt = set()
        k = node[0]
        for p in cur:
            if k == "lit":
                if p < len(s) and _ceq(ci, node[1], s[p]):
                    nxt.add(p + 1)
            elif k == "one":
                if p < len(s) and s[p] != "/":
                    nxt.add(p + 1)
            elif k == "sep":
                if p < len(s) and s[p] == "/":
                    nxt.add(p + 1)
            elif k == "star":
                q = p
                nxt.add(q)
                while q < len(s) and s[q] != "/":
                    q += 1
                    nxt.add(q)
            elif k == "dstar":
                nxt.update(range(p, len(s) + 1))
            elif k == "class":
                if p < len(s) and (any(_ceq(ci, x, s[p]) for x in node[2]) != node[1]):
                    nxt.add(p + 1)
            else:
                kind, alts = node[1], node[2]
                once = set()
                for a in alts:
                    once |= _seq_ends(a, s, [p], ci)
                if kind == "once":
                    nxt |= once
                elif kind == "opt":
                    nxt |= once | {p}
                else:
                    reach, frontier = set(once), set(once)
                    while frontier:
                        new = set()
                        for a in alts:
                            new |= _seq_ends(a, s, frontier, ci)
                        frontier = new - reach
                        reach |= new
                    nxt |= reach | ({p} if kind == "many" else set())
        cur = nxt
        if not cur:
            break
    return cur


def ref_match(ast, s, ci):
    return len(s) in _seq_ends(ast, s, [0], ci)


def _sel_subject(glob_abs, path):
    """string the include pattern of PathSelector(BASE) is matched against for `path`, relative to the pattern's anchor;
    None = not predicted, False = cannot match"""
    comps = path.split("/")
    if any(c in (".", "..") for c in comps) or "//" in path or path.endswith("/") or path == "":
        return None
    full = path if path.startswith("/") else BASE + "/" + path
    if glob_abs:
        return full
    if full.startswith(BASE + "/"):
        return full[len(BASE) + 1:]
    return False


def glob_is_abs(toks):
    g = "".join(toks)
    return g.startswith("/") or g.startswith("\\/") or g.startswith("**")


def _ref_job(job):
    mode, toks, ci, paths = job
    ast = ref_ast(toks)
    if ast is None:
        return None
    if mode == "D":
        return "".join("1" if ref_match(ast, p, ci) else "0" for p in paths)
    glob = "".join(toks)
    out = []
    for p in paths:
        subj = _sel_subject(glob_is_abs(toks), p)
        out.append("-" if subj is None else ("0" if subj is False else ("1" if ref_match(ast, subj, ci) else "0")))
    return "".join(out)


class Case:
    __slots__ = ("mode", "ci", "toks", "glob", "paths", "line")

    def __init__(self, mode, ci, toks, paths, glob=None):
        self.mode, self.ci, self.toks, self.paths = mode, ci, toks, paths
        self.glob = "".join(toks) if glob is None else glob
        if mode == "D":
            self.line = "D %d %s %s" % (ci, enc(self.glob), " ".join(enc(p) for p in paths))
        else:
            self.line = "S %d %s %s %s" % (ci, enc(BASE), enc(self.glob), " ".join(enc(p) for p in paths))


def ancestors_of(path):
    return [("/" if i == 0 else path[:i]) for i, c in enumerate(path) if c == "/"]


def oracle(case, impl_line):
    """Model-free: full match => every ancestor directory passes the partial match. Returns failing (path, dir) list."""
    f = impl_line.split(" ")
    bad = []
    if f[0] != "ok":
        return bad
    for path, res in zip(case.paths, f[2:]):
        a, b, _c, d = res.split(":")
        if a[0] == "1" and "0" in b:
            anc = ancestors_of(path)
            bad.append((path, anc[b.index("0")] if b.index("0") < len(anc) else "?"))
        elif a[0] == "1" and d[0] == "0":
            # the path itself: Pattern level = a prefix of the matching string; selector level = walk.rs calls
            # matches_dir on input paths / link targets that are files
            bad.append((path, path))
    return bad


def sel_paths(rng, paths):
    """selector mode: relative paths (joined to the base), the same under the base as absolute, some elsewhere"""
    out = []
    for p in paths:
        p = p.strip("/")
        while "//" in p:
            p = p.replace("//", "/")
        if p in ("", ".", ".."):
            p = "a"
        r = rng.below(6)
        out.append(p if r < 3 else (BASE + "/" + p if r < 5 else "/" + p))
    return out


class MCase:
    """PathSelector(BASE) with several include paths / exclude paths / names (each a token list)"""
    __slots__ = ("ci", "incs", "excs", "names", "paths", "line")
    mode = "M"

    def __init__(self, ci, incs, excs, names, paths):
        self.ci, self.incs, self.excs, self.names, self.paths = ci, incs, excs, names, paths
        fl = lambda l: ",".join(enc("".join(t)) for t in l) or "_"
        self.line = "M %d %s %s %s %s %s" % (ci, enc(BASE), fl(incs), fl(excs), fl(names), " ".join(enc(p) for p in paths))

    def describe(self):
        j = lambda l: [("".join(t)) for t in l]
        return "PathSelector(%s)%s include_paths=%r exclude_paths=%r include_names=%r" % (
            BASE, " -i" if self.ci else "", j(self.incs), j(self.excs), j(self.names))


# include-path globs (token lists) with diverging and shared literal prefixes, relative and absolute
M_INCS = [["a", "/", "*"], ["B", "/", "**"], ["a", "/", "B", "/", "*"], ["a", "-", "1", "/", "ż", "/", "*"], ["a", "b", "/", "*", ".", "1"],
          ["**", "/", "B"], ["/", "a", "/", "*"], ["{a,b/c}", "/", "*"], ["B", "/", "a"], ["a", "/", "a"], ["a", "/", "B", "/", "B"],
          ["ż", "/", "**"], ["(", "/", "?"], ["a", ".", "1", "/", "*"], ["*", "/", "a"], ["a", "/", "a", "/", "a"], ["B"], ["[ab]", "/", "**"]]
M_INCS_ABS = [list(BASE) + ["/"] + g for g in (["a", "/", "*"], ["B", "/", "**"], ["ż", "/", "a"])]
M_NAMES = [["*"], ["a", "*"], ["*", ".", "1"], ["[ab]"], ["B"], ["?"], ["a", "b"], ["ż"]]
M_EXCS = [["a", "/", "B", "/", "**"], ["**", "/", "a", "b"], ["B"], ["a", "/", "a"], ["*", "/", "(", "/", "**"], ["ż", "/", "*"]]


def gen_multi(ctx, paths_all):
    rng = ctx.rng
    out = []
    n = ctx.pick(1500, 30000)
    for i in range(n):
        k = 2 + rng.below(2) if i % 8 else rng.below(2)          # mostly 2-3 include paths, sometimes 0-1
        pool = M_INCS + M_INCS_ABS
        incs = [rng.choice(pool) if rng.chance(5, 6) else [rng.choice(TOKENS) for _ in range(1 + rng.below(3))] for _ in range(k)]
        names = [rng.choice(M_NAMES) for _ in range(rng.choice([0, 0, 1, 2, 3]))]
        excs = [rng.choice(M_EXCS) for _ in range(rng.choice([0, 0, 1, 2]))]
        ps = [rng.choice(paths_all) for _ in range(5)]
        for g in incs:
            rel = g[len(BASE) + 1:] if "".join(g).startswith(BASE + "/") else g
            ps += [guided_path(rng, rel).lstrip("/") or "a" for _ in range(3)]
        out.append(MCase(rng.below(2), incs, excs, names, sel_paths(rng, ps)))
        ctx.bump("selector_include_paths", len(incs))
        ctx.bump("selector_exclude_paths", len(excs))
        ctx.bump("selector_include_names", len(names))
    return out


def _mref_job(job):
    """union semantics of a selector WITHOUT excludes: (no names or some name matches the file name) and
    (no include paths or some include path matches the path); '-' where not predicted"""
    ci, incs, names, paths = job
    ia = [(glob_is_abs(g), ref_ast(g)) for g in incs]
    na = [ref_ast(g) for g in names]
    if any(a is None for _, a in ia) or any(a is None for a in na):
        return None
    out = []
    for p in paths:
        subj_abs, subj_rel = _sel_subject(True, p), _sel_subject(False, p)
        if subj_abs is None:
            out.append("-")
            continue
        fname = subj_abs.rsplit("/", 1)[-1]
        ok_n = (not na) or any(ref_match(a, fname, ci) for a in na)
        ok_p = (not ia) or any(ref_match(a, subj_abs, ci) if ab else (subj_rel is not False and ref_match(a, subj_rel, ci)) for ab, a in ia)
        out.append("1" if ok_n and ok_p else "0")
    return "".join(out)


def check_multi(ctx, model, paths_all):
    from multiprocessing import Pool
    mcases = gen_multi(ctx, paths_all)
    impl, mod = run_both([c.line for c in mcases], model)
    prune, mism, sem = [], [], []
    with Pool(core.NCPU) as pool:
        refs = pool.map(_mref_job, [(bool(c.ci), c.incs, c.names, c.paths) for c in mcases], chunksize=32)
    nref = 0
    for c, il, ml, ref in zip(mcases, impl, mod, refs):
        ctx.count(len(c.paths))
        ctx.bump("mode", "M_ci" if c.ci else "M", len(c.paths))
        if il == "panic":
            ctx.violation({"kind": "glob_panics"}, "%s panics" % c.describe(), {"case_line": c.line, "selector": c.describe()}, True)
            continue
        if il != ml:
            mism.append((len(c.line), c, il, ml))
        if not il.startswith("ok "):
            continue
        for i, (path, res) in enumerate(zip(c.paths, il.split(" ")[2:])):
            a, b, b0, d = res.split(":")
            ctx.distinct(("M", c.line[:200], path), a[1] == "1" or "0" in b0)
            ctx.bump("selector_full_match", a)
            if a[1] == "1" and ("0" in b0 or d[1] == "0"):
                anc = ancestors_of(path)
                dd = anc[b0.index("0")] if "0" in b0 else path
                prune.append((len(c.line), len(path), c, path, dd, il, ml))
            if ref is not None and ref[i] != "-":
                nref += 1
                if ref[i] != a[1]:
                    sem.append((len(c.line), len(path), c, path, a[1], il, ml))
    ctx.extra["selector_pairs_checked_against_python_union_reference"] = nref
    if prune:
        _, _, c, path, dd, il, ml = min(prune, key=lambda t: t[:2])
        ctx.violation_counts["ancestor_pruned_selector"] = len(prune)
        ctx.violation({"kind": "ancestor_pruned"},
                      "%s (no excludes applied): matches_full_path(%r) is true but matches_dir(%r) is false — a directory that is an ancestor of "
                      "(or is) a path matching one of the include paths is pruned (%d failing pairs)" % (c.describe(), path, dd, len(prune)),
                      {"case_line": MCase(c.ci, c.incs, [], c.names, [path]).line, "selector": c.describe(), "path": path, "dir": dd,
                       "full_case_line": c.line, "impl": il, "model": ml}, found_input=True)
    if sem:
        _, _, c, path, g, il, ml = min(sem, key=lambda t: t[:2])
        ctx.violation_counts["selector_semantics"] = len(sem)
        ctx.violation({"kind": "selector_semantics"},
                      "%s (no excludes applied) %s %r, contrary to the union semantics of names/include paths (%d such pairs)"
                      % (c.describe(), "selects" if g == "1" else "does not select", path, len(sem)),
                      {"case_line": MCase(c.ci, c.incs, [], c.names, [path]).line, "selector": c.describe(), "path": path,
                       "full_case_line": c.line, "impl": il, "model": ml}, found_input=True)
    if mism and not any(v[3] for v in ctx.violations):
        _, c, il, ml = min(mism, key=lambda t: t[0])
        ctx.violation({"kind": "model_mismatch"}, "model and implementation disagree on %s: impl=%s model=%s (%d cases)"
                      % (c.describe(), il[:120], ml[:120], len(mism)), {"case_line": c.line, "selector": c.describe(), "impl": il, "model": ml},
                      found_input=False)


def gen_cases(ctx):
    rng = ctx.rng
    cases = []
    paths_all = all_paths(ctx.pick(3, 4))
    abs_all = ["/" + p for p in paths_all]
    nl_paths = ["/".join(x) for x in [["a\nb"], ["\n"], ["a", "\n"], ["a\nb", "a"], ["\n", "\n", "b"], ["a", "a\nb", "ab"], ["B", "\n"]]]

    def sample_paths(toks, k_fixed, k_guided):
        ps = [rng.choice(paths_all) for _ in range(k_fixed)] + [guided_path(rng, toks) for _ in range(k_guided)]
        ps += [rng.choice(nl_paths)]
        if "/" in toks[:1] or rng.chance(1, 4):
            ps += ["/" + p for p in ps[:3]]
        return ps

    def add(toks, paths, glob=None, half=False):
        if half:        # one Pattern-level and one selector-level case, --ignore-case on exactly one of them
            ci = rng.below(2)
            cases.append(Case("D", ci, toks, paths, glob))
            cases.append(Case("S", 1 - ci, toks, sel_paths(rng, paths), glob))
            return
        for ci in (0, 1):
            cases.append(Case("D", ci, toks, paths, glob))
            cases.append(Case("S", ci, toks, sel_paths(rng, paths), glob))

    # 0-2 tokens: every path of the bounded set (relative and absolute), exhaustively
    small = [[]] + [[a] for a in TOKENS] + [[a, b] for a in TOKENS for b in TOKENS]
    for toks in small:
        for ci in (0, 1):
            cases.append(Case("D", ci, toks, paths_all + nl_paths))
            if toks and (toks[0] in ("/", "**", "*", "?", "[!a]") or ctx.tier != "quick"):
                cases.append(Case("D", ci, toks, abs_all))
            cases.append(Case("S", ci, toks, (paths_all if ctx.tier != "quick" else paths_all[:72]) + [BASE + "/" + p for p in paths_all[:72]] + abs_all[:8] + nl_paths))
        ctx.bump("glob_tokens", len(toks), 4)
    # 3 tokens: all globs, sampled paths
    k3 = ctx.pick((6, 6), (40, 24))
    for a in TOKENS:
        for b in TOKENS:
            for c in TOKENS:
                add([a, b, c], sample_paths([a, b, c], *k3))
        ctx.bump("glob_tokens", 3, 400 * 4)
    # 4 tokens: quick = a sample that still contains every token at every position next to every token; thorough = all
    if ctx.quick:
        n4 = 6000
        for i in range(n4):
            if i < 1600:       # complete (position, pair) coverage: pair (a,b) at positions 0..3
                a, b = TOKENS[(i // 4) % 20], TOKENS[(i // 80) % 20]
                toks = [rng.choice(TOKENS) for _ in range(4)]
                pos = i % 4
                toks[pos], toks[(pos + 1) % 4] = a, b
            else:
                toks = [rng.choice(TOKENS) for _ in range(4)]
            add(toks, sample_paths(toks, 4, 6))
        ctx.bump("glob_tokens", 4, n4 * 4)
    else:
        for a in TOKENS:
            for b in TOKENS:
                for c in TOKENS:
                    for d in TOKENS:
                        add([a, b, c, d], sample_paths([a, b, c, d], 3, 5), half=True)
        ctx.bump("glob_tokens", 4, 160000 * 2)
        n5 = 100000
        for _ in range(n5):
            toks = [rng.choice(TOKENS) for _ in range(5)]
            add(toks, sample_paths(toks, 3, 5), half=True)
        ctx.bump("glob_tokens", 5, n5 * 2)
    # cross-delimiter groups: every sequence of <= 3 tokens over XTOKENS + a small context that contains an XTOKEN
    xa = XTOKENS + XCONTEXT
    xseqs = [[a] for a in XTOKENS] + [[a, b] for a in xa for b in xa if a in XTOKENS or b in XTOKENS]
    if ctx.quick:
        xseqs += [[a, b, c] for a in xa for b in xa for c in xa
                  if sum(t in XTOKENS for t in (a, b, c)) >= 1 and rng.chance(1, 3)]
    else:
        xseqs += [[a, b, c] for a in xa for b in xa for c in xa if a in XTOKENS or b in XTOKENS or c in XTOKENS]
    for toks in xseqs:
        ps = [guided_path(rng, toks) for _ in range(8)]
        # the whole glob text as a subject: it must NOT match unless the documented semantics says so
        ps += ["".join(toks), rng.choice(paths_all)]
        add(toks, ps)
        ctx.bump("glob_tokens", "cross_delimiter_%d" % len(toks), 4)
    # escaped non-metacharacters: every sequence of <= 2 tokens over ETOKENS + a small context that contains one
    ea = ETOKENS + ECONTEXT
    eseqs = [[a] for a in ETOKENS] + [[a, b] for a in ea for b in ea if a in ETOKENS or b in ETOKENS]
    eseqs += [[rng.choice(ea), rng.choice(ETOKENS), rng.choice(ea)] for _ in range(ctx.pick(300, 6000))]
    for toks in eseqs:
        ps = [guided_path(rng, toks) for _ in range(6)] + ["".join(t[1] if t in ETOKENS else t for t in toks), "".join(toks)]
        add(toks, ps)
        ctx.bump("glob_tokens", "escaped_plain_%d" % len(toks), 4)
    # random globs over the wider alphabet (incl. syntax outside the theorem fragment), 1-7 tokens
    nr = ctx.pick(4000, 80000)
    for _ in range(nr):
        n = 1 + rng.below(7)
        toks = [rng.choice(EXTRA_TOKENS + XTOKENS + ETOKENS) if rng.chance(2, 5) else rng.choice(TOKENS) for _ in range(n)]
        ps = sample_paths(toks, 3, 6) + ["/".join(rng.choice(NAMES + EXTRA_NAMES) for _ in range(1 + rng.below(3))) for _ in range(3)]
        add(toks, ps)
        ctx.bump("glob_tokens", "random_%d" % min(n, 7), 4)
    return cases


def fixed_prefix_cases(ctx):
    """get_fixed_prefix on arbitrary regex-like strings: all strings of <= 3 (quick) / <= 4 symbols + random longer ones"""
    alpha = ["\\", "|", "?", "*", "{", "$", ".", "^", "(", ")", "[", "+", "a", "1", "ż", "-", "/", "}", "]"]
    out = ["F -"]
    layer = [""]
    for _ in range(ctx.pick(3, 4)):
        layer = [s + a for s in layer for a in alpha]
        out += ["F " + enc(s) for s in layer]
    for _ in range(ctx.pick(4000, 60000)):
        n = 4 + ctx.rng.below(8)
        s = "".join(ctx.rng.choice(alpha) for _ in range(n))
        if ctx.rng.chance(1, 2):
            s = "^" + s
        out.append("F " + enc(s))
    return out


def ci_cases():
    """case folding on the whole modelled domain: to_lowercase, char-vs-char and class-vs-char matching with -i"""
    dom = [c for c in range(1, DOMAIN_MAX + 1) if c not in CI_EXCLUDED and c != 10]
    lines = ["L %d" % c for c in dom]
    subj = " ".join(str(c) for c in dom)
    for c in dom:
        lines.append("D 1 92.%d %s" % (c, subj))
    for c in dom:
        if chr(c).isalpha():
            lines.append("D 1 91.%d.93 %s" % (c, subj))
            lines.append("D 1 91.33.%d.93 %s" % (c, subj))
    lines.append("D 1 91.97.45.122.93 %s" % subj)          # [a-z]
    lines.append("D 1 91.33.65.45.90.93 %s" % subj)        # [!A-Z]
    lines.append("D 1 91.192.45.382.93 %s" % subj)         # [À-ž]
    return lines


def _balanced(binary, lines):
    """run_lines_parallel splits into contiguous chunks; the heavy lines (few tokens x all paths) come first, so
    deal the lines round-robin over the shards and restore the order afterwards"""
    n = core.NCPU
    if len(lines) < 4 * n:
        return core.run_lines(binary, lines)
    order = [i for k in range(n) for i in range(k, len(lines), n)]
    out = core.run_lines_parallel(binary, [lines[i] for i in order])
    if len(out) != len(lines):
        raise RuntimeError("%s: %d output lines for %d input lines" % (binary, len(out), len(lines)))
    res = [None] * len(lines)
    for i, o in zip(order, out):
        res[i] = o
    return res


# characters OUTSIDE the modelled case-folding domain whose lower/upper-casing is context sensitive, multi-character or
# finer than the regex engine's simple case folding: differential-free, oracle only
BEYOND = ["σ", "ς", "Σ", "ſ", "s", "S", "\u212a", "k", "K", "ϑ", "ϴ", "θ", "Θ", "ẞ", "ß", "İ", "ı", "i", "I", "Α", "α",
          "\u212b", "å", "Å", "µ", "μ", "Μ", "ǅ", "ǆ", "Ǆ", "ŉ", "ΐ", "ΐ", "ᾳ", "ᾼ", "Ω", "\u2126", "ω"]


def beyond_domain_cases():
    """globs `/Α<c>*/f`, `<c>x*/f`, `/Α<c>/<c>` with -i x paths `/Α<d>Α/f`, `/Α<d>/f`, `<d>x/f`, `<d>xy/f`, `/Α<d>/<d>`:
    model-free conservativity (full match => every ancestor admitted), Pattern and selector level"""
    out = []
    for c in BEYOND:
        lit = "\\" + c
        ds = [d for d in BEYOND]
        p1 = ["/Α" + d + "Α/f" for d in ds] + ["/Α" + d + "/f" for d in ds] + ["/Α" + d + "/" + d for d in ds]
        p2 = [d + "x/f" for d in ds] + [d + "xΑ/f" for d in ds] + ["Α" + d + "/" + d + "Α/f" for d in ds]
        out.append(Case("D", 1, [], p1, glob="/Α" + lit + "*/f"))
        out.append(Case("D", 1, [], p1, glob="/Α" + lit + "/" + lit))
        out.append(Case("D", 1, [], p2, glob=lit + "x*/f"))
        out.append(Case("D", 1, [], p2, glob="Α" + lit + "/" + lit + "*/f"))
        out.append(Case("S", 1, [], p2, glob=lit + "x*/f"))
        out.append(Case("S", 1, [], p2, glob="Α" + lit + "/" + lit + "*/f"))
    return out


def run_both(lines, model):
    impl = _balanced(GLOB, lines)
    mod = _balanced(model, lines)
    if len(impl) != len(lines) or len(mod) != len(lines):
        raise RuntimeError("line count mismatch: %d cases, %d impl, %d model" % (len(lines), len(impl), len(mod)))
    return impl, mod


def describe_diff(case, il, ml):
    fi, fm = il.split(" "), ml.split(" ")
    if fi[0] != fm[0]:
        return "outcome impl=%s model=%s" % (fi[0], fm[0]), None
    if fi[1] != fm[1]:
        return "regex text impl=%r model=%r" % (dec(fi[1]), dec(fm[1])), None
    for p, a, b in zip(case.paths, fi[2:], fm[2:]):
        if a != b:
            return "path %r impl=%s model=%s" % (p, a, b), p
    return "line length", None


def replay_payload(case, il, ml, extra=None):
    d = {"mode": case.mode, "ignore_case": bool(case.ci), "glob": case.glob, "tokens": case.toks, "base_dir": BASE if case.mode == "S" else None,
         "paths": case.paths, "case_line": case.line, "impl": il, "model": ml,
         "replay_cmd": "echo '%s' | %s   # and | %s for the model" % (case.line, GLOB, os.path.join(core.CACHE, "model_P"))}
    if extra:
        d.update(extra)
    return d


def keep_drop_layer(ctx, model, cases):
    """The dedupe-side entry points of the globs (`--keep-name`, `--keep-path`, `--name`, `--path`): dedupe.rs should_keep /
    may_drop with the glob as the only pattern of its kind must answer what the compiled pattern answers on the file name /
    on the path text - the extracted matcher (model, D mode) is asked the same questions."""
    ks, ds, subjects = [], [], []
    for c in cases:
        ps = [p for p in c.paths if p and not p.endswith("/") and "//" not in p and all(x not in (".", "..", "") for x in p.strip("/").split("/"))
              and p != "/"]
        if not ps:
            continue
        ps = ps[:6] + [p + "\n" for p in ps[:1]] + ["x\\" + p for p in ps[:1]] + [p.replace("a", "\x1b", 1) for p in ps[:1]]
        ks.append("K %d %s %s" % (c.ci, enc(c.glob), " ".join(enc(p) for p in ps)))
        ds.append("D %d %s %s" % (c.ci, enc(c.glob), " ".join(enc(x) for p in ps for x in (p, p.split("/")[-1]))))
        subjects.append((c, ps))
    impl = _balanced(GLOB, ks)
    mod = _balanced(model, ds)
    bad = []
    for (c, ps), il, ml in zip(subjects, impl, mod):
        ctx.count(len(ps))
        if il.split(" ")[0] != ml.split(" ")[0]:
            if not ml.startswith("unsup"):
                bad.append((len(c.glob), 0, c, "-", "outcome %s vs model %s" % (il.split(" ")[0], ml.split(" ")[0])))
            continue
        if not il.startswith("ok "):
            continue
        ib, mb = il.split(" ")[2:], ml.split(" ")[2:]
        for j, p in enumerate(ps):
            full, name = mb[2 * j][0], mb[2 * j + 1][0]
            want = name + full + name + full
            ctx.bump("keep_drop_option_verdicts", "match" if "1" in want else "no_match")
            ctx.distinct(("K", c.ci, c.glob, p), "1" in want)
            if ib[j] != want:
                which = [n for n, a, b in zip(("--keep-name", "--keep-path", "--name", "--path"), ib[j], want) if a != b]
                bad.append((len(c.glob), len(p), c, p, "%s answers %s, the compiled pattern %s" % ("/".join(which), ib[j], want)))
    if bad:
        _, _, c, p, why = min(bad, key=lambda t: t[:2])
        ctx.violation_counts["keep_drop_glob_semantics"] = len(bad)
        ctx.violation({"kind": "glob_semantics", "layer": "dedupe_options"},
                      "glob %r%s as a dedupe keep/drop pattern on %r: %s (%d such pairs)" % (c.glob, " with -i" if c.ci else "", p, why, len(bad)),
                      {"case_line": "K %d %s %s" % (c.ci, enc(c.glob), enc(p)), "glob": c.glob, "path": p, "ignore_case": bool(c.ci),
                       "tokens": c.toks}, found_input=True)


CLI_DIRS = ["a", "B", "ż", "ab"]
CLI_FILES = ["b", "a.1", "a-1", "(", "A", "a+", "c", "1", "a,b", "{a", "b}", "a|b"]


def cli_layer(ctx, n):
    """The glue between the command line and the pattern compiler: `fclones group . --name G | --path G | --exclude G [-i]` run from
    the root of a fixed tree (directories over {a B ż ab} up to depth 2, files named {b a.1 a-1 ( A a+ c 1 a,b {a b} a|b} in each,
    unique contents, --rf-over 0 so that every selected file is listed).  The listed set must be exactly the files the documented
    glob semantics selects (independent reference matcher): --name on the file name, relative --path / --exclude on the path
    relative to the working directory (an excluded directory is not entered)."""
    import shutil
    from concurrent.futures import ThreadPoolExecutor
    from .. import treegen
    fclones = core.build_fclones()
    top = os.path.realpath(os.path.join(ctx.scratch, "cli_tree"))
    shutil.rmtree(top, ignore_errors=True)
    dirs = [""] + CLI_DIRS + [a + "/" + b for a in CLI_DIRS for b in CLI_DIRS]
    files = []
    k = 0
    for d in dirs:
        os.makedirs(os.path.join(top, d), exist_ok=True)
        for f in CLI_FILES:
            rel = (d + "/" if d else "") + f
            with open(os.path.join(top, rel), "w") as fh:
                fh.write("unique content %d\n" % k)
            k += 1
            files.append(rel)
    rng = ctx.rng.fork()
    jobs = []
    pool = TOKENS + XTOKENS
    for i in range(n):
        mode = ["name", "path", "exclude"][i % 3]
        while True:
            nt = 1 + rng.below(4)
            toks = [rng.choice(XTOKENS + ["{a,b/c}", "@(a|b)", "*(a|b)"]) if rng.chance(1, 3) else rng.choice(pool) for _ in range(nt)]
            if mode != "name" and rng.chance(1, 2):
                toks = [rng.choice(["**", "*", "a", "ab", "B"]), "/"] + toks
            glob = "".join(toks)
            if glob.startswith("-") or glob.startswith("/") or glob.startswith("\\/") or "\n" in glob:
                continue
            ast = ref_ast(toks)
            if ast is not None and mode == "exclude" and ref_match(ast, "", False):
                continue            # matches the empty relative path = the working directory itself: everything is excluded (not judged)
            if ast is not None:
                break
        ci = rng.chance(1, 4)
        jobs.append((i, mode, toks, glob, ast, ci))

    def one(job):
        i, mode, toks, glob, ast, ci = job
        argv = ["group", ".", "--rf-over", "0", "-f", "json", "--%s" % mode, glob] + (["-i"] if ci else [])
        rc, out, err = treegen.fclones(argv, cwd=top, env={"FCLONES_VERIF_DISK_KIND": "ssd", "HOME": top + "_home"}, timeout=60)
        return rc, out, err

    with ThreadPoolExecutor(max_workers=core.NCPU) as ex:
        outs = list(ex.map(one, jobs))
    for (i, mode, toks, glob, ast, ci), (rc, out, err) in zip(jobs, outs):
        ctx.count(len(files))
        ctx.bump("cli_option", "--" + mode + (" -i" if ci else ""))
        payload = {"layer": "cli", "cwd": "tree of directories over %r (depth <= 2) with files %r in each" % (CLI_DIRS, CLI_FILES),
                   "argv": ["fclones", "group", ".", "--rf-over", "0", "--%s" % mode, glob] + (["-i"] if ci else []), "tokens": toks,
                   "stderr": err.decode("utf-8", "replace")[-300:]}
        if rc != 0:
            ctx.violation({"kind": "glob_rejected", "layer": "cli"}, "fclones group --%s %r failed (rc %d) although the glob is made of documented "
                          "constructs" % (mode, glob, rc), payload, found_input=True)
            continue
        try:
            _, groups = treegen.parse_json_report(out.decode("utf-8"))
        except Exception as e:   # noqa
            ctx.violation({"kind": "glob_rejected", "layer": "cli"}, "unparsable report: %r" % (e,), payload, found_input=True)
            continue
        got = sorted(os.path.relpath(p.decode("utf-8", "surrogateescape"), top) for g in groups for p in g["files"])
        isabs = glob_is_abs(toks)

        def m(full):
            """does the (absolutised) pattern match the absolute string `full`?"""
            if isabs:
                return ref_match(ast, full, ci)
            return full.startswith(top + "/") and ref_match(ast, full[len(top) + 1:], ci)

        def excluded(rel):
            # selector.rs: matches_full_path on the file; matches_dir on every directory walked through (the input path included):
            # the pattern matches a prefix of "<dir>/" that ends at a component boundary
            full = top + "/" + rel
            c = full.split("/")
            cands = ["/"] + [x for j in range(2, len(c)) for x in ("/".join(c[:j]), "/".join(c[:j]) + "/")]
            return m(full) or any(m(x) for x in cands)
        if mode == "name":
            want = sorted(f for f in files if ref_match(ast, f.split("/")[-1], ci))
        elif mode == "path":
            want = sorted(f for f in files if m(top + "/" + f))
        else:
            want = sorted(f for f in files if not excluded(f))
        ctx.distinct(("cli", mode, glob, ci), 0 < len(want) < len(files))
        ctx.bump("cli_selected_files", "none" if not want else "all" if len(want) == len(files) else "some")
        if got != want:
            miss = sorted(set(want) - set(got))[:4]
            extra = sorted(set(got) - set(want))[:4]
            payload.update(missing=miss, unexpected=extra)
            ctx.violation({"kind": "glob_semantics", "layer": "cli"},
                          "`fclones group . --%s %r%s` selects the wrong files (missing %r, unexpected %r): the glob given on the command "
                          "line does not match as documented" % (mode, glob, " -i" if ci else "", miss, extra), payload, found_input=True)
    shutil.rmtree(top, ignore_errors=True)


def run(ctx):
    ctx.rule = ("bounded-exhaustive globs over 20 tokens {a B . - + ( ż 1 ? * ** / [ab] [!a] {a,b/c} @(a|b) ?(a) +(a) *(a|b) \\*}: "
                "all globs of <= 2 tokens x all paths of <= 3 (quick) / <= 4 (thorough) components over names {a B b a.1 a-1 ż ( ab} "
                "(relative and absolute) + names with newlines; all 3-token globs and (quick: a 6000 sample containing every adjacent "
                "token pair at every position; thorough: all) 4-token globs (+100k 5-token globs thorough) x sampled fixed paths and "
                "paths derived from the glob so that many match; random globs of 1-7 tokens over a wider alphabet incl. $ ^ | , } ] "
                "class syntax outside the fragment; a dedicated family of groups whose alternatives contain the other group kind's delimiters "
                "as literals ({a(,b} {a|b,c} {x(1),y} @(a,b|c) ?(a{) +(a}|b) ...) in sequences of <= 3 tokens with subjects incl. the "
                "glob text itself; every glob with and without --ignore-case, directly (Pattern) and through "
                "PathSelector include/exclude/name with base dir /d-1/x.y/ż and relative + absolute paths; escaped non-metacharacters "
                "(\\a \\d \\w \\s \\b \\1 \\< \\ż ...) in sequences of <= 2 tokens (+ sampled 3); PathSelectors with 0-3 include paths (diverging and "
                "shared literal prefixes, relative and absolute), 0-3 names and 0-2 excludes. One evaluation = one "
                "(glob, ci, mode, path); non-trivial = full match true, or some ancestor rejected by the partial match, or an "
                "err/panic outcome; distinct = distinct (mode, ci, glob, path)")
    ctx.assumptions = ["the regex crate implements standard matching (GlobProofs.rmatch) on the emitted fragment: compared on every case "
                       "against the extracted derivative matcher proved equivalent to rmatch",
                       "case folding is modelled for code points <= U+017E except U+0130; checked exhaustively on that domain "
                       "(to_lowercase, literal and class matching with -i)",
                       "character classes: literal items and ranges without \\ ^ [ ] & ~ - ; other class bodies are compared only "
                       "where the model predicts an outcome (model answers `unsup` otherwise: oracle only)"]
    ctx.trusted.append("C16: harness/src/bin/glob.rs (calls Pattern::glob_with, matches, matches_partially, matches_prefix, "
                       "PathSelector::{include_paths,exclude_paths,include_names,matches_full_path,matches_dir}, "
                       "regex::verif::get_fixed_prefix); coq/driver/drv_P.ml; the regex crate's parser/matcher for the emitted fragment")
    ctx.use_coq()
    model = core.build_model("P")
    core.build_harness(["glob"])

    if ctx.replay:
        rp = json.load(open(ctx.replay))
        lines = rp.get("case_lines") or [rp["case_line"]]
        impl, mod = run_both(lines, model)
        for l, il, ml in zip(lines, impl, mod):
            ctx.count()
            f = l.split(" ")
            if f[0] in ("D", "S"):
                k = 3 if f[0] == "D" else 4
                toks = rp.get("tokens") or []
                case = Case(f[0], int(f[1]), toks, [dec(x) for x in f[k:]], glob=dec(f[k - 1]))
                if il == "panic":
                    ctx.violation({"kind": "glob_panics"}, "building a pattern from glob %r panics" % case.glob, replay_payload(case, il, ml), True)
                if il == "err" and toks and "".join(toks) == case.glob and all(t in REF_TOKENS for t in toks) and ref_ast(toks) is not None:
                    ctx.violation({"kind": "glob_rejected"}, "glob %r is rejected with an error" % case.glob, replay_payload(case, il, ml), True)
                for path, d in oracle(case, il):
                    ctx.violation({"kind": "ancestor_pruned"}, "glob %r fully matches %r but directory %r is rejected by the partial match"
                                  % (case.glob, path, d), replay_payload(case, il, ml, {"path": path, "dir": d}), True)
                if toks and "".join(toks) == case.glob and il.startswith("ok "):
                    ref = _ref_job((case.mode, toks, bool(case.ci), case.paths))
                    got = "".join(r[0] for r in il.split(" ")[2:])
                    for path, g, r in zip(case.paths, got, ref or ""):
                        if r != "-" and g != r:
                            ctx.violation({"kind": "glob_semantics"}, "glob %r %s %r, contrary to the documented semantics"
                                          % (case.glob, "matches" if g == "1" else "does not match", path),
                                          replay_payload(case, il, ml, {"path": path}), True)
            if f[0] == "M" and il.startswith("ok "):
                for path, res in zip([dec(x) for x in f[6:]], il.split(" ")[2:]):
                    a, b, b0, d = res.split(":")
                    if a[1] == "1" and ("0" in b0 or d[1] == "0"):
                        ctx.violation({"kind": "ancestor_pruned"}, "%s: matches_full_path(%r) but a directory on the way (or the path itself) is "
                                      "rejected by matches_dir" % (rp.get("selector", l[:80]), path), {"case_line": l, "impl": il, "model": ml}, True)
            if il != ml and not ml.startswith("unsup"):
                ctx.violation({"kind": "model_mismatch"}, "model and implementation disagree on %s: impl=%s model=%s" % (l[:80], il[:80], ml[:80]),
                              {"case_line": l, "impl": il, "model": ml}, found_input=False)
            core.log("replayed: %s\n  impl : %s\n  model: %s" % (l[:200], il[:200], ml[:200]))
        return

    # --- 1. the pattern cases ------------------------------------------------------------------
    cases = gen_cases(ctx)
    lines = [c.line for c in cases]
    impl, mod = run_both(lines, model)
    mismatches = []
    oracle_fails = []
    panics = []
    rejected = []
    unsup = 0
    for case, il, ml in zip(cases, impl, mod):
        fi = il.split(" ")
        ctx.bump("mode", case.mode + ("_ci" if case.ci else ""), len(case.paths))
        ctx.bump("outcome", fi[0])
        if fi[0] != "ok":
            ctx.count()
            ctx.distinct((case.mode, case.ci, case.glob), True)
            if fi[0] == "panic":
                panics.append((len(case.glob), case.mode, case.ci, case, il, ml))
            elif fi[0] == "err" and case.toks and all(t in REF_TOKENS for t in case.toks) and ref_ast(case.toks) is not None:
                rejected.append((len(case.glob), case.mode, case.ci, case, il, ml))
        else:
            nmatch = 0
            for path, res in zip(case.paths, fi[2:]):
                a, b, _, _ = res.split(":")
                full = a[0] == "1"
                nmatch += full
                ctx.distinct((case.mode, case.ci, case.glob, path), full or "0" in b)
                ctx.bump("path_depth", path.count("/") + 1)
                ctx.bump("full_match", int(full))
                if b:
                    ctx.bump("ancestors_all_admitted", int("0" not in b))
            ctx.count(len(case.paths))
            if nmatch and len(ctx.samples) < 6 and len(case.toks) >= 3 and (len(ctx.samples) % 2 == 0) == (case.mode == "D"):
                shown = sorted(range(len(case.paths)), key=lambda i: (fi[2 + i][0] != "1", i))[:4]
                ctx.sample({"mode": case.mode, "ignore_case": bool(case.ci), "glob": case.glob,
                            "regex": dec(fi[1]) if fi[1] != "-" else "(selector mode, base %s)" % BASE,
                            "paths": [case.paths[i] for i in shown], "impl=model": [fi[2 + i] for i in shown]})
        for t in case.toks:
            ctx.bump("token", t)
        for path, d in oracle(case, il):
            oracle_fails.append((len(case.glob), len(path), case.mode, case.ci, case, il, ml, path, d))
        if ml.startswith("unsup"):
            unsup += 1
            continue
        if il != ml:
            mismatches.append((case, il, ml))
    ctx.extra["cases_outside_class_fragment_oracle_only"] = unsup

    # --- 1b. independent reference matcher on the Pattern-level cases over the fixed token set ------
    from multiprocessing import Pool
    dcases = [(c, il) for c, il in zip(cases, impl) if c.toks and il.startswith("ok ") and all(t in REF_TOKENS for t in c.toks)]
    with Pool(core.NCPU) as pool:
        refs = pool.map(_ref_job, [(c.mode, c.toks, bool(c.ci), c.paths) for c, _ in dcases], chunksize=64)
    sem_fails, nref = [], 0
    for (c, il), ref in zip(dcases, refs):
        if ref is None:
            continue
        got = "".join(r[0] for r in il.split(" ")[2:])
        nref += len(ref) - ref.count("-")
        if got != ref:
            for path, g, r in zip(c.paths, got, ref):
                if g != r and r != "-":
                    sem_fails.append((len(c.glob), len(path), c.mode, c.ci, c, path, g))
    ctx.extra["pairs_checked_against_python_reference_matcher"] = nref
    ctx.bump("sweep", "python_reference_matcher_pairs", nref)
    if sem_fails:
        _, _, _, _, c, path, g = min(sem_fails, key=lambda t: t[:4])
        one = Case(c.mode, c.ci, c.toks, [path], c.glob)
        ctx.violation_counts["glob_semantics"] = len(sem_fails)
        ctx.violation({"kind": "glob_semantics"},
                      "glob %r%s%s %s %r, contrary to the documented semantics (independent reference matcher; %d such pairs)"
                      % (c.glob, " with -i" if c.ci else "", " as the include path of PathSelector(%s)" % BASE if c.mode == "S" else "",
                         "matches" if g == "1" else "does not match", path, len(sem_fails)),
                      replay_payload(one, "", "", {"path": path, "impl_matches": g == "1"}), found_input=True)
    # --- 1d. case folding beyond the modelled domain: implementation + model-free oracle only -------------
    bcases = beyond_domain_cases()
    bimpl = _balanced(GLOB, [c.line for c in bcases])
    nb_match = 0
    for c, il in zip(bcases, bimpl):
        ctx.count(len(c.paths))
        if il == "panic":
            panics.append((len(c.glob), c.mode, c.ci, c, il, ""))
        nb_match += sum(1 for r in il.split(" ")[2:] if r[0] == "1") if il.startswith("ok ") else 0
        for path, d in oracle(c, il):
            oracle_fails.append((len(c.glob), len(path), c.mode, c.ci, c, il, "(not modelled: beyond the case-folding domain)", path, d))
    ctx.bump("sweep", "beyond_domain_case_folding_pairs", sum(len(c.paths) for c in bcases))
    ctx.extra["beyond_domain_full_matches_checked_for_conservativity"] = nb_match

    if panics:
        _, _, _, case, il, ml = min(panics, key=lambda t: t[:3])
        ctx.violation_counts["glob_panics"] = len(panics)
        ctx.violation({"kind": "glob_panics"}, "building a pattern from glob %r%s panics instead of matching or returning an error (%d such cases)"
                      % (case.glob, " through PathSelector" if case.mode == "S" else "", len(panics)),
                      replay_payload(Case(case.mode, case.ci, case.toks, case.paths[:1], case.glob), il, ml), found_input=True)
    if rejected:
        _, _, _, case, il, ml = min(rejected, key=lambda t: t[:3])
        ctx.violation_counts["glob_rejected"] = len(rejected)
        ctx.violation({"kind": "glob_rejected"}, "glob %r, made only of documented constructs and (escaped) literal characters, is rejected "
                      "with an error instead of matching (%d such cases)" % (case.glob, len(rejected)),
                      replay_payload(Case(case.mode, case.ci, case.toks, case.paths[:1], case.glob), il, ml), found_input=True)
    if oracle_fails:
        # report the smallest failing (glob, path): shortest glob, then shortest path, Pattern level before selector level
        _, _, _, _, case, il, ml, path, d = min(oracle_fails, key=lambda t: t[:4])
        minimal = Case(case.mode, case.ci, case.toks, [path], case.glob)
        ctx.violation_counts["ancestor_pruned"] = len(oracle_fails)
        ctx.violation({"kind": "ancestor_pruned"},
                      "glob %r (%s%s) fully matches %r but %s %r is rejected by %s (%d failing (glob, path) pairs this run)"
                      % (case.glob, "selector, base %s" % BASE if case.mode == "S" else "Pattern", ", -i" if case.ci else "",
                         path, "the path itself" if d == path else "its ancestor directory", d,
                         "matches_dir" if case.mode == "S" else "matches_partially", len(oracle_fails)),
                      replay_payload(minimal, il, ml, {"path": path, "dir": d, "full_case_line": case.line}), found_input=True)

    # --- 1c. selectors with several include paths / names / excludes ---------------------------------
    check_multi(ctx, model, all_paths(3))

    # --- 1d'. the dedupe-side options (should_keep / may_drop) on a sample of the Pattern-level cases -------------
    kd = [c for c in cases if c.mode == "D" and len(c.toks) >= 1]
    keep_drop_layer(ctx, model, [kd[i] for i in range(0, len(kd), max(1, len(kd) // ctx.pick(3000, 40000)))])

    # --- 1e. the command line in front of the compiler (clap value handling, base dir anchoring) ------
    cli_layer(ctx, ctx.pick(240, 3000))

    # --- 2. get_fixed_prefix on arbitrary strings -------------------------------------------------
    fl = fixed_prefix_cases(ctx)
    fi_, fm_ = run_both(fl, model)
    ctx.count(len(fl))
    ctx.bump("sweep", "get_fixed_prefix", len(fl))
    fp_bad = [(l, a, b) for l, a, b in zip(fl, fi_, fm_) if a != b]

    # --- 3. case folding domain ---------------------------------------------------------------------
    cl = ci_cases()
    ci_, cm_ = run_both(cl, model)
    ctx.bump("sweep", "case_folding_domain", len(cl))
    ctx.count(sum(max(1, len(l.split(" ")) - 3) for l in cl))
    ci_bad = [(l, a, b) for l, a, b in zip(cl, ci_, cm_) if a != b]

    # --- correspondence failures ----------------------------------------------------------------------
    have_input = any(v[3] for v in ctx.violations)
    if mismatches:
        case, il, ml = min(mismatches, key=lambda m: (len(m[0].glob), len(m[0].line)))
        what, path = describe_diff(case, il, ml)
        # neighbourhood search with the oracle: the disagreeing glob (and its sub-globs) on the whole bounded path set
        found = None
        if not have_input:
            nb = []
            pa = all_paths(3)
            toks = case.toks or [case.glob]
            subs = {tuple(toks[i:j]) for i in range(len(toks)) for j in range(i + 1, len(toks) + 1)}
            for sub in sorted(subs, key=len, reverse=True)[:12]:
                for ci in (0, 1):
                    nb.append(Case("D", ci, list(sub), pa + ["/" + p for p in pa[:80]]))
                    nb.append(Case("S", ci, list(sub), pa[:200] + [BASE + "/" + p for p in pa[:80]]))
            nimpl = _balanced(GLOB, [c.line for c in nb])
            for c, l in zip(nb, nimpl):
                o = oracle(c, l)
                if o:
                    found = (c, l, o[0])
                    break
        # second neighbourhood search, for the "matches iff the documented semantics say so" half: sub-globs of the
        # disagreeing globs that consist of tokens with a fixed documented meaning, evaluated by the implementation and
        # by the independent python reference matcher on an enlarged path set (bounded paths, paths derived from the
        # glob, and those with one character dropped or doubled)
        sem_found, evaluator_used = None, False
        if not found and not have_input:
            nb, seen = [], set()
            pa = all_paths(3)[:240]
            for m in sorted(mismatches, key=lambda m: (len(m[0].glob), len(m[0].line)))[:60]:
                toks = m[0].toks
                for i in range(len(toks)):
                    for j in range(i + 1, min(len(toks), i + 6) + 1):
                        sub = tuple(toks[i:j])
                        if sub in seen or not all(t in REF_TOKENS for t in sub) or ref_ast(list(sub)) is None:
                            continue
                        seen.add(sub)
                        gp = [guided_path(ctx.rng, list(sub)) for _ in range(24)]
                        var = []
                        for q in gp[:8]:
                            var += [q[:k] + q[k + 1:] for k in range(len(q))] + [q[:k] + q[k] + q[k:] for k in range(len(q))]
                        for ci in (0, 1):
                            nb.append(Case("D", ci, list(sub), pa + gp + var[:120]))
                if len(nb) > 4000:
                    break
            if nb:
                evaluator_used = True
                nimpl = _balanced(GLOB, [c.line for c in nb])
                bad = []
                for c, l in zip(nb, nimpl):
                    if not l.startswith("ok "):
                        continue
                    ref = _ref_job(("D", c.toks, bool(c.ci), c.paths))
                    got = "".join(r[0] for r in l.split(" ")[2:])
                    if ref is not None and got != ref:
                        for q, g, r in zip(c.paths, got, ref):
                            if g != r:
                                bad.append((len(c.glob), len(q), c.ci, c, q, g))
                if bad:
                    sem_found = min(bad, key=lambda t: t[:3])
        if sem_found:
            _, _, _, c, q, g = sem_found
            ctx.violation({"kind": "glob_semantics"},
                          "glob %r%s %s %r, contrary to the documented semantics (independent reference matcher; found in the neighbourhood "
                          "of a model/implementation disagreement: %s)" % (c.glob, " with -i" if c.ci else "", "matches" if g == "1" else "does not match", q, what),
                          replay_payload(Case("D", c.ci, c.toks, [q], c.glob), "", "", {"path": q, "impl_matches": g == "1",
                                                                                       "disagreeing_cases": len(mismatches)}), found_input=True)
        elif found:
            c, l, (p, d) = found
            ctx.violation({"kind": "ancestor_pruned"}, "glob %r fully matches %r but directory %r is rejected (found in the neighbourhood of a "
                          "model/implementation disagreement: %s)" % (c.glob, p, d, what), replay_payload(c, l, "", {"path": p, "dir": d}), True)
        elif not have_input:
            minimal = Case(case.mode, case.ci, case.toks, [path] if path is not None else case.paths[:1], case.glob)
            ctx.violation({"kind": "model_mismatch"},
                          "model GlobModel.v and the implementation disagree on glob %r (%s%s): %s; %d disagreeing cases; no input "
                          "violating the pruning oracle found in the neighbourhood" % (case.glob, case.mode, " -i" if case.ci else "", what, len(mismatches)),
                          replay_payload(minimal, il, ml, {"disagreeing_cases": len(mismatches),
                                                           "more": [m[0].glob for m in mismatches[1:12]],
                                                           "independent_evaluator": ("python reference matcher agreed with the implementation on every "
                                                                                     "sub-glob with a fixed token meaning" if evaluator_used else
                                                                                     "no independent evaluator applies to the disagreeing globs "
                                                                                     "(tokens without a fixed documented meaning)")}), found_input=False)
        else:
            core.log("model/implementation disagreement on %d cases (first: %r: %s)" % (len(mismatches), case.glob, what))
    if fp_bad:
        l, a, b = min(fp_bad, key=lambda x: len(x[0]))
        ctx.violation({"kind": "fixed_prefix_mismatch"}, "get_fixed_prefix(%r): impl %s, model %s (%d disagreements)" % (dec(l[2:]), a, b, len(fp_bad)),
                      {"case_line": l, "impl": a, "model": b, "regex_text": dec(l[2:])}, found_input=False)
    if ci_bad:
        l, a, b = ci_bad[0]
        ctx.violation({"kind": "case_folding_mismatch"}, "case folding on the modelled domain: %s impl=%s model=%s (%d disagreements)"
                      % (l[:60], a[:60], b[:60], len(ci_bad)), {"case_line": l, "impl": a, "model": b}, found_input=False)
    ctx.extra["exhaustive"] = False
    ctx.extra["bounded_exhaustive_part"] = ("all globs of <= 2 tokens x all paths of the bounded set; all 3-token globs x sampled paths; "
                                            + ("sampled" if ctx.quick else "all") + " 4-token globs x sampled paths")
