"""C04 — a stale report never causes removal of changed data (engine D).

Proof obligations: coq/Props_C04.v (history model at the end of coq/DedupeModel.v).
Correspondence: harness/src/bin/ddp.rs `hist` drives the real library in the order main.rs uses it:
  group_files ; [operations] ; write_report ; [operations] ; dedupe(modified_before = header time stamp) ; run_script
on generated groups and histories (rewrite same/other length, append, truncate, touch, unlink, recreate,
replace by directory / fifo / symlink; between hashing and the report, or after the report), real clocks
with 10 ms spacing.  The state of every path right before the dedupe run and the command list must
equal what the extracted history model (final / stat_of / hist_run) computes from D and the operations.
Oracle (model-free): inventory before/after run_script - every path that was removed / replaced / moved
held bytes that an untouched member still holds.
K1 (repaired by /repo 8227c8a): run_group stamps the report BEFORE the scan; the harness mirrors that order
(start_time ; group_files ; ... ; write_report_at(start_time)), the old K1 history is case 0 of every run and a
rewrite placed inside a real, still running `fclones group` is checked at the level of the binary
(run_cli_window); data lost through that window is a plain VIOLATION (changed_between_hashing_and_report_timestamp).
"""
import json
import os
import subprocess
from concurrent.futures import ThreadPoolExecutor

from .. import core
from . import c08

DDP = c08.DDP
ZONES = ["UTC", "EET-2", "EST5", "IST-5:30", "<+13>-13"]      # POSIX TZ strings: UTC+0, +2, -5, +5:30, +13
OP_KINDS = ["repoint_same", "repoint_diff", "write_same", "write_diff", "write_equal", "append", "truncate", "touch", "unlink", "recreate_same",
            "recreate_diff", "recreate_equal", "dir", "fifo", "symlink_dangling", "symlink_dir"]


def gen_hist(rng, cid):
    k = 2 + rng.below(4)
    members = []
    for j in range(k):
        d = rng.choice(["r0", "r0/d", "r1", "r1/d/e"])
        m = {"path": "%s/f%d" % (d, j)}
        if j >= 2 and rng.chance(1, 4) and "hard_of" not in members[j - 1]:
            m["hard_of"] = rng.below(j)
            if "hard_of" in members[m["hard_of"]]:
                del m["hard_of"]
        if "hard_of" not in m and rng.chance(1, 6):
            m["symlink_out"] = True      # a link member (report made with -S) whose data lives outside the scanned tree
        members.append(m)
    nops = rng.choice([0, 1, 1, 1, 2, 2, 3])
    ops = []
    for _ in range(nops):
        o = {"m": rng.below(k), "phase": 1 + rng.below(2), "kind": rng.choice(OP_KINDS), "fill": 66 + rng.below(3)}
        if o["kind"] in ("truncate", "write_diff"):
            o["arg"] = rng.below(4)
        ops.append(o)
    # isolated roots (dedupe --isolate, or inherited from the header): a sub-group is then ALL files under one
    # root, so a changed file can sit anywhere inside a sub-group that is dropped as a whole
    iso = rng.choice([[], [], [], ["r0", "r1"], ["r1", "r0"], ["r1"], ["r0"], ["r0/d", "r0", "r1"]])
    # selection options of the dedupe command: they PIN members (keep match, or outside --name/--path); a pinned
    # member is the one the others are removed in favour of, so its stamp matters as much as anybody's
    pats = {"kn": [], "kp": [], "dn": [], "dp": []}
    if rng.chance(1, 3):
        which = rng.choice(["kn", "kp", "dn", "dp"])
        j = rng.below(k)
        if ops and rng.chance(2, 3):
            j = ops[rng.below(len(ops))]["m"]            # aim at a member that is edited
        name = "f%d" % j
        if which == "kn":
            pats["kn"] = [name]
        elif which == "kp":
            pats["kp"] = ["**/" + name]
        elif which == "dn":
            pats["dn"] = [n for n in ("f%d" % i for i in range(k)) if n != name][:3] or ["nothing"]
        else:
            pats["dp"] = [rng.choice(["**/r1/**", "**/r0/**", "**/d/**"])]
    return {"id": cid, "len": 1 + rng.below(6), "members": members, "ops": ops, "op": rng.choice(c08.OPS), "iso": iso,
            "kn": pats["kn"], "kp": pats["kp"], "dn": pats["dn"], "dp": pats["dp"],
            # the dedupe run may read the header's instant expressed with another UTC offset (None: as written)
            "tz_off": rng.choice([None, None, 0, 7200, -18000, 19800, 46800]),
            "nosize": rng.chance(1, 5), "prio": rng.choice([[], [], [4], [5], [10], [0], [4, 11]]),
            "n": rng.choice([None, None, 1, 2]), "format": rng.choice(["text", "json"]), "mlinks": rng.chance(1, 5)}


def run_hist(cases, scratch, timeout=240):
    lines = [json.dumps(c) for c in cases]
    shards = min(core.NCPU, max(1, len(lines) // 4))
    size = (len(lines) + shards - 1) // shards
    parts = [lines[i:i + size] for i in range(0, len(lines), size)]

    def one(args):
        i, part = args
        sdir = os.path.join(scratch, "s%d" % i)
        env = {"TZ": ZONES[i % len(ZONES)]}      # write_report stamps Local::now(): local time + this zone's offset
        try:
            return core.run_lines(DDP, part, ["hist", sdir], env=env, timeout=timeout)
        except subprocess.TimeoutExpired:
            # a hanging dedupe run (e.g. a command opening a fifo): find the history, one by one
            out = []
            for l in part:
                try:
                    out += core.run_lines(DDP, [l], ["hist", sdir], env=env, timeout=20)
                except subprocess.TimeoutExpired:
                    out.append("%d\tHANG\t-" % json.loads(l)["id"])
            return out

    with ThreadPoolExecutor(max_workers=shards) as ex:
        outs = list(ex.map(one, list(enumerate(parts))))
    res = {}
    for o in outs:
        for l in o:
            f = l.split("\t")
            if len(f) < 3:
                raise RuntimeError("ddp hist: malformed output: " + l[:300])
            if f[1] == "HANG":
                res[int(f[0])] = {"hang": True}
                continue
            if f[1] == "PRECOND":
                raise RuntimeError("ddp hist: harness precondition failed for case %s: %s" % (f[0], f[2]))
            res[int(f[0])] = {"hline": f[1], "impl": f[2], "pre": f[3].split(" "), "post": f[4].split(" "),
                              "info": json.loads(f[5])}
    return res


def content_of(inv):
    """bytes (hex) a path holds itself, or None (missing, directory/fifo, symlink)."""
    if inv.startswith("F:"):
        return inv.split(":")[2]
    return None


def held_through(inv):
    """bytes reachable at the path: its own, or (symbolic link member) those of the file it leads to"""
    if inv.startswith("F:"):
        return inv.split(":")[2]
    if inv.startswith("L:"):
        x = inv.split(":")[2]
        return None if x in ("dangling", "nonreg") else x
    return None


def oracle(case, r):
    """model-free: every touched path held bytes that an untouched regular member still holds."""
    bad = []
    pre, post = r["pre"], r["post"]
    glen = case["len"]
    for i in range(len(pre)):
        if pre[i] == post[i]:
            continue
        if pre[i].startswith("N"):
            bad.append(("non_regular_member_touched", "member %d (%s) is not a regular file but was acted upon: now %s" % (i, pre[i], post[i])))
            continue
        d = content_of(pre[i])
        if d is None:
            continue            # a symlink or nothing: no bytes of its own
        # a reflink / timestamp restore may leave the same inode with the same bytes: not a loss
        if content_of(post[i]) == d and post[i].split(":")[1] == pre[i].split(":")[1]:
            continue
        holders = [j for j in range(len(pre)) if j != i and pre[j] == post[j] and held_through(pre[j]) == d]
        if not holders:
            # K1 class: some member that passes the checks got other bytes between hashing and write_report
            # (then either it is removed itself, or it is the retained file and an unchanged one goes)
            d0 = "41" * glen
            in_window = False
            for j in range(len(pre)):
                dj = held_through(pre[j])
                if r["info"]["last_phase"][j] == 1 and dj is not None and dj != d0:
                    nb = 0 if dj == "-" else len(dj) // 2
                    if nb == glen or case["nosize"]:
                        in_window = True
            if in_window:
                kind = "changed_between_hashing_and_report_timestamp"
            else:
                kind = "changed_data_lost"
            bad.append((kind, "member %d held %s (changed in phase %d) and was removed/replaced; no untouched member holds these bytes"
                        % (i, d, r["info"]["last_phase"][i])))
    return bad


def examine(ctx, cases, res, mout, count=True):
    fails = []
    for case in cases:
        r = res[case["id"]]
        if r.get("hang"):
            fails.append(("dedupe_run_hangs", {"case": case}, "the dedupe run on this history does not terminate within 20 s "
                          "(a command blocks, e.g. on a fifo that should have been left out)"))
            continue
        model = mout[case["id"]]
        bad = oracle(case, r)
        if count:
            ctx.count()
            cmds = r["impl"].split(" ## S ")[1]
            ctx.distinct(json.dumps({k: v for k, v in case.items() if k != "id"}, sort_keys=True), cmds != "-" and len(case["ops"]) > 0)
            ctx.bump("members", len(case["members"]))
            ctx.bump("hard_link_pair", any("hard_of" in m for m in case["members"]))
            ctx.bump("operations", len(case["ops"]))
            for o in case["ops"]:
                ctx.bump("operation_kind@phase", "%s@%s" % (o["kind"], "before_report" if o["phase"] == 1 else "after_report"))
            ctx.bump("dedupe_op", case["op"])
            ctx.bump("isolated_roots", len(case.get("iso", [])))
            ctx.bump("selection_options", "".join(x for x in ("kn", "kp", "dn", "dp") if case.get(x)) or "none")
            ctx.bump("link_members(target outside)", sum(1 for m in case["members"] if m.get("symlink_out")))
            if any(case.get(x) for x in ("kn", "kp", "dn", "dp")) or any(m.get("symlink_out") for m in case["members"]):
                hl = r["hline"].split("|")[1].split(";")
                for o in case["ops"]:
                    pos = r["info"]["order"].index(o["m"])
                    f = hl[pos].split()
                    if len(f) >= 14:
                        pinned = ("1" in f[9]) or ("1" in f[10]) or ((case.get("dn") or case.get("dp")) and "1" not in f[11] + f[12])
                        ctx.bump("edited_member", "%s%s:%s" % ("pinned" if pinned else "droppable",
                                                              "+link" if case["members"][o["m"]].get("symlink_out") else "",
                                                              "before_report" if o["phase"] == 1 else "after_report"))
            roots = case.get("iso", [])

            def root_of(path):
                for r in roots:
                    if path == r or path.startswith(r + "/"):
                        return r
                return None
            # position of every changed member inside its sub-group (isolated root, else hard-link set), report order
            order = r["info"]["order"]
            keyed = []
            for j in order:
                m = case["members"][j]
                ro = root_of(m["path"])
                keyed.append(("root", ro) if ro is not None else ("ino", m.get("hard_of", j)))
            for o in case["ops"]:
                pos = order.index(o["m"])
                first = keyed.index(keyed[pos])
                size = keyed.count(keyed[pos])
                ctx.bump("changed_member_position_in_subgroup",
                         "%s:%s:%s" % (keyed[pos][0], "single" if size == 1 else ("first" if first == pos else "non-first"),
                                       "before_report" if o["phase"] == 1 else "after_report"))
            ctx.bump("no_check_size", case["nosize"])
            ctx.bump("utc_offset_of_header_s", r["info"].get("header_utc_offset"))
            ctx.bump("utc_offset_of_cutoff_s", r["info"].get("cutoff_utc_offset"))
            ctx.bump("report_format", case["format"])
            ctx.bump("commands_issued", cmds != "-")
            ctx.bump("members_changed_before_run", sum(1 for p in r["info"]["last_phase"] if p > 0))
            ctx.bump("files_touched_by_run", sum(1 for a, b in zip(r["pre"], r["post"]) if a != b))
            ctx.sample({"case": case, "impl": r["impl"], "model": model})
        rec = {"case": case, "model_input": r["hline"], "impl": r["impl"], "model": model, "pre": r["pre"],
               "post": r["post"], "info": r["info"], "oracle": bad}
        if model != r["impl"]:
            fails.append(("corr", rec, "model %s | implementation %s" % (model, r["impl"])))
        for kind, text in bad:
            fails.append((kind, rec, text))
    return fails


def run_both(ctx, cases, model_bin, scratch):
    res = run_hist(cases, scratch)
    ids = [c["id"] for c in cases if not res[c["id"]].get("hang")]
    outs = core.run_lines(model_bin, [res[i]["hline"] for i in ids]) if ids else []
    return res, dict(zip(ids, outs))


def neighbourhood(case):
    out = []
    for kind in OP_KINDS:
        for phase in (1, 2):
            for m in range(len(case["members"])):
                out.append(dict(case, ops=[{"m": m, "phase": phase, "kind": kind, "arg": 1}]))
    for op in c08.OPS:
        out.append(dict(case, op=op))
    out.append(dict(case, nosize=not case["nosize"]))
    res = []
    for i, c in enumerate(out):
        c = json.loads(json.dumps(c))
        c["id"] = 900000 + i
        res.append(c)
    return res


def report(ctx, fails, model_bin, scratch):
    corr = [f for f in fails if f[0] == "corr"]
    seen = set()
    for kind, rec, text in fails:
        if kind == "corr":
            continue
        if kind in ("changed_between_hashing_and_report_timestamp", "dedupe_run_hangs") or "case" not in rec:
            ctx.violation({"kind": kind}, text, rec, found_input=True)
            continue
        if kind in seen:
            ctx.violation({"kind": kind}, text, rec, found_input=True)
            continue
        seen.add(kind)
        # minimise: drop operations one by one while the failure persists
        case = rec["case"]
        cur = json.loads(json.dumps(case))
        try:
            changed = True
            while changed and len(cur["ops"]) > 1:
                changed = False
                for i in range(len(cur["ops"])):
                    cand = dict(cur, ops=cur["ops"][:i] + cur["ops"][i + 1:], id=0)
                    res, mo = run_both(ctx, [cand], model_bin, scratch)
                    if any(f[0] == kind for f in examine(ctx, [cand], res, mo, count=False)):
                        cur, changed = cand, True
                        break
            rec = dict(rec, minimised_case=cur)
        except Exception as e:  # best effort
            core.log("shrink failed: %r" % (e,))
        ctx.violation({"kind": kind}, "history %d: %s" % (case["id"], text), rec, found_input=True)
    if corr:
        have_input = any(v[3] for v in ctx.violations)
        _, rec, text = corr[0]
        rec = dict(rec, correspondence="DedupeModel.hist_run (final / stat_of / dedupe_group) vs group_files ; write_report ; dedupe",
                   disagreeing_cases=len(corr))
        if not have_input:
            found = None
            for _, r, _ in [c for c in corr if "case" in c[1]][:2]:
                nb = neighbourhood(r["case"])
                res, mo = run_both(ctx, nb, model_bin, scratch)
                for x in examine(ctx, nb, res, mo, count=False):
                    if x[0] != "corr":
                        found = x
                        break
                if found:
                    break
            if found:
                ctx.violation({"kind": found[0]}, "found near a model/implementation disagreement: " + found[2], found[1], found_input=True)
            else:
                ctx.violation({"kind": "model_mismatch"}, "history model and implementation disagree (%s); the oracle is silent on the "
                              "case and its neighbourhood" % text[:300], rec, found_input=False)
        else:
            core.log("model/implementation disagreement on %d histories (first: %s)" % (len(corr), text[:300]))


def directed_pinned_and_link_cases(start):
    """the retained member is the changed one: pinned by a selection option (every option, every op), or a link
    member (target outside the tree) rewritten THROUGH the link / re-pointed, listed first so that it is retained"""
    out = []
    cid = start
    base = {"len": 4, "nosize": False, "prio": [], "n": None, "format": "text", "mlinks": False, "iso": []}
    for op in c08.OPS:
        for pat in ({"kn": ["f1"]}, {"kp": ["**/r0/f1"]}, {"dn": ["f0", "f2"]}, {"dp": ["**/r1/**"]}):
            c = dict(base, id=cid, members=[{"path": "r1/f0"}, {"path": "r0/f1"}, {"path": "r1/d/f2"}],
                     ops=[{"m": 1, "phase": 2, "kind": "write_same", "fill": 67}], op=op, kn=[], kp=[], dn=[], dp=[])
            c.update(pat)
            out.append(c)
            cid += 1
        for kind in ("write_same", "repoint_same", "append", "truncate", "touch"):
            out.append(dict(base, id=cid, members=[{"path": "r0/a0", "symlink_out": True}, {"path": "r0/b1"}, {"path": "r1/c2"}],
                            ops=[{"m": 0, "phase": 2, "kind": kind, "fill": 67, "arg": 2}], op=op, kn=[], kp=[], dn=[], dp=[]))
            cid += 1
    return out


def directed_isolate_cases(start):
    """a change AFTER the report on a non-first path of a multi-file isolated root (and of a hard-link set) that
    would otherwise be dropped as a whole: every member of a sub-group must be checked, not its first path"""
    out = []
    cid = start
    for op in c08.OPS:
        for kind in ("write_same", "recreate_same", "touch"):
            for victim in (2, 3):
                out.append({"id": cid, "len": 4, "members": [{"path": "r0/a"}, {"path": "r1/b"}, {"path": "r1/c"}, {"path": "r1/d/e"}],
                            "ops": [{"m": victim, "phase": 2, "kind": kind, "fill": 67}], "op": op, "iso": ["r0", "r1"],
                            "nosize": False, "prio": [], "n": None, "format": "text", "mlinks": False})
                cid += 1
        # hard-link set b = c (one inode, shared mtime), change through the second name
        out.append({"id": cid, "len": 4, "members": [{"path": "r0/a"}, {"path": "r1/b"}, {"path": "r1/c", "hard_of": 1}],
                    "ops": [{"m": 2, "phase": 2, "kind": "write_same", "fill": 67}], "op": op, "iso": [],
                    "nosize": False, "prio": [], "n": None, "format": "text", "mlinks": False})
        cid += 1
    return out


# ------------------------------------------------------------------------------------------------
# CLI layer: the binary end to end (main.rs run_dedupe: header time stamp as cut-off, header options merged),
# `group` and the dedupe command under different TZ, edits after the report, real (not dry) runs of all five ops

CLI_OPS = {"rm": ["remove"], "hl": ["link"], "sl": ["link", "--soft"], "rl": ["dedupe"], "mv": ["move"]}
CLI_EDITS = ["none", "rewrite_same_after", "rewrite_same_after", "append_after", "append_mtime_restored", "truncate_mtime_restored",
             "repoint_after"]


def gen_cli_hist(rng):
    roots = ["r0", "r1"]
    files = []
    for k in range(3 + rng.below(3)):
        r = roots[k] if k < 2 else rng.choice(roots)
        f = {"rel": "%s/%sf%d" % (r, rng.choice(["", "d/"]), k), "link_of": None}
        if k >= 2 and rng.chance(1, 5):
            f["link_of"] = rng.below(k)
            if files[f["link_of"]]["link_of"] is not None:
                f["link_of"] = None
        files.append(f)
    gopts = []
    with_s = rng.chance(1, 2)
    if with_s:
        gopts.append("-S")
        # link members whose data is outside the scanned roots (only a -S report lists them)
        for f in files:
            if f["link_of"] is None and not any(g["link_of"] == files.index(f) for g in files) and rng.chance(1, 3):
                f["symlink_out"] = True
        if all(f.get("symlink_out") for f in files if f["link_of"] is None):
            files[1].pop("symlink_out", None)
    if rng.chance(1, 3):
        gopts.append("-H")
    isolate = rng.chance(1, 3)
    if isolate:
        gopts.append("--isolate")
    if rng.chance(1, 4):
        gopts += ["--rf-over", "1"]
    victim = rng.below(len(files))
    # selection options of the dedupe command; half of the time aimed at pinning the edited member
    sel = None
    if rng.chance(2, 5):
        j = victim if rng.chance(1, 2) else rng.below(len(files))
        name = os.path.basename(files[j]["rel"])
        kind = rng.choice(["keep-name", "keep-path", "name", "path"])
        if kind == "keep-name":
            sel = ["--keep-name", name]
        elif kind == "keep-path":
            sel = ["--keep-path", "**/" + files[j]["rel"].split("/")[0] + "/**"]
        elif kind == "name":
            others = [os.path.basename(f["rel"]) for i, f in enumerate(files) if i != j]
            sel = []
            for n in others:
                sel += ["--name", n]
        else:
            sel = ["--path", "**/" + rng.choice(["r0", "r1"]) + "/**"]
    return {"files": files, "gopts": gopts, "edit": rng.choice(CLI_EDITS), "victim": victim, "select": sel,
            "op": rng.choice(sorted(CLI_OPS)), "tz_group": rng.choice(ZONES), "tz_dedupe": rng.choice(ZONES)}


def inventory(paths):
    out = {}
    for p in paths:
        try:
            st = os.lstat(p)
        except OSError:
            out[p] = ("missing",)
            continue
        import stat as _st
        if _st.S_ISLNK(st.st_mode):
            try:
                through = open(p, "rb").read().hex() if os.path.isfile(p) else None
            except OSError:
                through = None
            out[p] = ("symlink", os.readlink(p), through)
        elif _st.S_ISREG(st.st_mode):
            out[p] = ("file", st.st_ino, open(p, "rb").read().hex())
        else:
            out[p] = ("other", st.st_ino)
    return out


def run_cli_hist(ctx, spec, model_bin, fclones, clidir, count=True):
    """-> list of (kind, record, text)"""
    import datetime
    import shutil
    import time
    shutil.rmtree(clidir, ignore_errors=True)
    tree = os.path.join(clidir, "tree")
    other = os.path.join(clidir, "other")
    os.makedirs(other)
    content = b"DDDDDDDD"
    paths = []
    for f in spec["files"]:
        p = os.path.join(tree, f["rel"])
        os.makedirs(os.path.dirname(p), exist_ok=True)
        if f["link_of"] is not None:
            os.link(paths[f["link_of"]], p)
        elif f.get("symlink_out"):
            tgt = os.path.join(clidir, "outside", "x%d" % len(paths))
            os.makedirs(os.path.dirname(tgt), exist_ok=True)
            with open(tgt, "wb") as fh:
                fh.write(content)
            os.utime(tgt, (1_600_000_000, 1_600_000_000))
            os.symlink(tgt, p)
        else:
            with open(p, "wb") as fh:
                fh.write(content)
            os.utime(p, (1_600_000_000, 1_600_000_000))
        paths.append(p)
    env_g = dict(os.environ, TZ=spec["tz_group"], RAYON_NUM_THREADS="2")
    env_d = dict(os.environ, TZ=spec["tz_dedupe"], RAYON_NUM_THREADS="2")
    g = c08.sh([fclones, "group"] + spec["gopts"] + ["r0", "r1"], tree, env=env_g)
    if g.returncode != 0:
        raise RuntimeError("fclones group failed: " + g.stderr[-400:])
    report = g.stdout
    lines = report.split("\n")
    ts_line = [l for l in lines if l.startswith("# Timestamp:")][0][len("# Timestamp: "):]
    ts = datetime.datetime.strptime(ts_line, "%Y-%m-%d %H:%M:%S.%f %z")
    ts_ns = int(round(ts.timestamp() * 1000)) * 10 ** 6
    time.sleep(0.02)
    v = paths[spec["victim"]]
    edit = spec["edit"]
    if edit == "rewrite_same_after":
        with open(v, "wb") as fh:
            fh.write(b"EEEEEEEE")
    elif edit == "append_after":
        with open(v, "ab") as fh:
            fh.write(b"EE")
    elif edit == "append_mtime_restored":
        with open(v, "ab") as fh:
            fh.write(b"EE")
        os.utime(v, (1_600_000_000, 1_600_000_000))
    elif edit == "truncate_mtime_restored":
        os.truncate(v, 5)
        os.utime(v, (1_600_000_000, 1_600_000_000))
    elif edit == "repoint_after":
        if os.path.islink(v):           # re-point the link member at a NEW file of the same length
            tgt = os.path.join(clidir, "outside", "repointed")
            with open(tgt, "wb") as fh:
                fh.write(b"FFFFFFFF")
            os.unlink(v)
            os.symlink(tgt, v)
        else:
            with open(v, "wb") as fh:
                fh.write(b"EEEEEEEE")
    time.sleep(0.01)
    # groups of the report and the model's prediction: partition (merge header cli) per group
    groups, cur = [], None
    for l in lines:
        if l.startswith("#") or not l.strip():
            continue
        if not l.startswith("    "):
            cur = {"glen": int(l.split(",")[1].strip().split(" ")[0]), "files": []}
            groups.append(cur)
        else:
            cur["files"].append(l[4:])
    gopts = spec["gopts"]
    rfo = "1" if "--rf-over" in gopts else "-"
    # the selection options, evaluated here for the simple patterns the generator uses (exact names, **/<root>/**)
    sel = spec.get("select") or []
    selp = {"--keep-name": [], "--keep-path": [], "--name": [], "--path": []}
    for i in range(0, len(sel), 2):
        selp[sel[i]].append(sel[i + 1])

    def bitstr(pats, f, by_name):
        if not pats:
            return "-"
        out = ""
        for pt in pats:
            if by_name:
                out += "1" if os.path.basename(f) == pt else "0"
            else:
                out += "1" if ("/" + pt.split("/")[1] + "/") in f else "0"
        return out
    mlines = []
    for gr in groups:
        mem = []
        for f in gr["files"]:
            st = os.stat(f)
            mem.append(" %s %d %d %d %d %d %d - %d,%d %s %s %s %s 1" % (
                c08.comps_hex(f), st.st_dev, st.st_ino, st.st_size, 1, st.st_mtime_ns, st.st_atime_ns,
                st.st_ctime_ns // 10 ** 9, st.st_ctime_ns % 10 ** 9,
                bitstr(selp["--keep-name"], f, True), bitstr(selp["--keep-path"], f, False),
                bitstr(selp["--name"], f, True), bitstr(selp["--path"], f, False)))
        hf = "0 %d %s 0 0 %d %s %d" % ("-H" in gopts, rfo, "--isolate" in gopts,
                                      ",".join(c08.comps_hex(os.path.join(tree, r)) for r in ("r0", "r1")), ts_ns)
        mlines.append("M " + hf + " # rm - 0 0 - - %d - %d,%d,%d,%d |" % (
            gr["glen"], len(selp["--keep-name"]), len(selp["--keep-path"]), len(selp["--name"]), len(selp["--path"])) + " ;".join(mem))
    mout = core.run_lines(model_bin, mlines) if mlines else []
    predicted = set()
    unobservable = set()      # predicted hard-link replacements of a path that already IS a hard link of the target
    for gr, o in zip(groups, mout):
        if o.startswith("EXN"):
            raise RuntimeError("model: " + o)
        pm = o.split(" ## ")[0]
        if pm.startswith("ok"):
            k = pm.split("K=")[1].split(" ")[0]
            d = pm.split("D=")[1]
            if d != "-":
                dropped = set(gr["files"][int(i)] for i in d.split(","))
                predicted |= dropped
                if spec["op"] == "hl" and k != "-":
                    # with --match-links a hard link of the retained file is a replica of its own and is "processed":
                    # `ln target link` on a path that already names the target's inode leaves (type, inode, bytes) as they were
                    target = gr["files"][int(k.split(",")[0])]
                    try:
                        tst = os.stat(target, follow_symlinks=False)
                        for q in dropped:
                            qst = os.stat(q, follow_symlinks=False)
                            if (qst.st_dev, qst.st_ino) == (tst.st_dev, tst.st_ino):
                                unobservable.add(q)
                    except OSError:
                        pass
    pre = inventory(paths)
    cmd = [fclones] + CLI_OPS[spec["op"]] + ([os.path.join(clidir, "moved")] if spec["op"] == "mv" else []) + sel
    d = c08.sh(cmd, other, stdin=report, env=env_d)
    post = inventory(paths)
    changed = set(p for p in paths if pre[p] != post[p])
    fails = []
    rel = lambda ps: sorted(x.replace(tree + "/", "") for x in ps)
    rec = {"cli_hist_spec": spec, "report_timestamp": ts_line, "dedupe_exit": d.returncode, "dedupe_stderr": d.stderr[-1500:].replace(clidir, "<dir>"),
           "changed_paths": rel(changed), "model_predicts": rel(predicted),
           "pre": {k.replace(tree + "/", ""): list(x) for k, x in pre.items()}, "post": {k.replace(tree + "/", ""): list(x) for k, x in post.items()}}
    # oracle: every path acted upon held bytes an untouched regular member still holds
    for p in sorted(changed):
        if pre[p][0] != "file":
            continue
        holders = [q for q in paths if q != p and pre[q] == post[q] and pre[q][0] in ("file", "symlink") and pre[q][2] == pre[p][2]]
        if not holders:
            fails.append(("changed_data_lost", rec, "%s held %s (edit: %s on %s) and was removed/replaced by `fclones %s`; no untouched "
                          "member holds these bytes" % (p.replace(tree + "/", ""), bytes.fromhex(pre[p][2]), edit,
                                                        spec["files"][spec["victim"]]["rel"], " ".join(CLI_OPS[spec["op"]]))))
    # correspondence: the set of paths the run changed = what partition (merge header cli) drops
    import re as _re
    m = _re.search(r"Processed (\d+) files", d.stderr)
    processed = int(m.group(1)) if m else None
    rec["processed_reported"] = processed
    rec["unobservable_relinks"] = rel(unobservable)
    if spec["op"] == "rl":
        ok = changed <= predicted          # no FICLONE on this file system: the commands fail and change nothing
    else:
        # observed diff = predicted set modulo the re-links that cannot be seen in (type, inode, bytes);
        # the count printed by the binary does see them
        ok = (changed == predicted - unobservable) and (d.returncode != 0 or processed == len(predicted))
    if not ok:
        fails.append(("corr", rec, "CLI run changed %s, model of run_dedupe (merge of the header + partition) predicts %s" % (rel(changed), rel(predicted))))
    if count:
        ctx.count()
        ctx.distinct(("clihist", json.dumps(spec, sort_keys=True)), len(changed) > 0)
        ctx.bump("cli_group_options", " ".join(gopts) or "(none)")
        ctx.bump("cli_edit", edit)
        ctx.bump("cli_selection_option", (sel[0] if sel else "none"))
        vf = spec["files"][spec["victim"]]
        ctx.bump("cli_edited_member", "%s%s" % ("link(target outside)" if vf.get("symlink_out") else "file",
                                                 ",named by the selection option" if sel and (os.path.basename(vf["rel"]) in sel) else ""))
        ctx.bump("cli_op", spec["op"])
        ctx.bump("cli_zones(group>dedupe)", "%s>%s" % (spec["tz_group"], spec["tz_dedupe"]))
        ctx.bump("cli_paths_changed", len(changed))
    shutil.rmtree(clidir, ignore_errors=True)
    return fails


def run_cli_window(ctx, fclones, clidir, attempt, inplace=False):
    """K1 regression at the level of the binary (main.rs run_group decides WHEN the report is stamped): a scan kept
    busy by two large files; the small member b is rewritten with the same length while `fclones group` is still
    running and after b was hashed; then a real `remove`.  Conclusive iff the report lists {a, b} (b was hashed
    before the edit) and the process was still running after the edit.  -> (conclusive, fails)"""
    import shutil
    import time
    shutil.rmtree(clidir, ignore_errors=True)
    tree = os.path.join(clidir, "tree")
    os.makedirs(tree)
    for n in ("a", "b"):
        with open(os.path.join(tree, n), "wb") as fh:
            fh.write(b"DDDDDDDD")
        os.utime(os.path.join(tree, n), (1_600_000_000, 1_600_000_000))
    extra = []
    env = dict(os.environ, RAYON_NUM_THREADS="2")
    if inplace:
        # `--transform P $IN --in-place --no-copy`: P works on the originals (here: it leaves them as they are and is slow for the
        # files named big*), so the scan is still busy long after a and b have been read
        bind = os.path.join(clidir, "bin")
        os.makedirs(bind)
        with open(os.path.join(bind, "slowbig.sh"), "w") as fh:
            fh.write("#!/bin/sh\ncase \"$(basename \"$1\")\" in big*) sleep %s;; esac\nexit 0\n" % (2 + attempt))
        os.chmod(os.path.join(bind, "slowbig.sh"), 0o755)
        env["PATH"] = bind + ":" + env.get("PATH", "/usr/bin:/bin")
        extra = ["--transform", "slowbig.sh $IN", "--in-place", "--no-copy"]
        for n in ("big1", "big2"):
            with open(os.path.join(tree, n), "wb") as fh:
                fh.write(b"BIGBIGBIGBIG")
            os.utime(os.path.join(tree, n), (1_600_000_000, 1_600_000_000))
    else:
        for n in ("big1", "big2"):
            with open(os.path.join(tree, n), "wb") as fh:
                fh.truncate((64 + 48 * attempt) * 1024 * 1024)       # sparse; hashing them keeps the scan running
    rep = os.path.join(clidir, "report")
    t0 = time.time()
    proc = subprocess.Popen([fclones, "group", tree, "-o", rep, "--rf-over", "1"] + extra, cwd=clidir, env=env,
                            stdout=subprocess.DEVNULL, stderr=subprocess.DEVNULL)
    time.sleep(0.3 + 0.15 * attempt)
    b = os.path.join(tree, "b")
    with open(b, "wb") as fh:
        fh.write(b"EEEEEEEE")
    t_edit = time.time()
    running_after_edit = proc.poll() is None
    try:
        proc.wait(timeout=300)
    except subprocess.TimeoutExpired:
        proc.kill()
        return False, []
    report = open(rep).read() if os.path.exists(rep) else ""
    listed = [l[4:] for l in report.split("\n") if l.startswith("    ")]
    conclusive = running_after_edit and os.path.join(tree, "a") in listed and b in listed
    fails = []
    if conclusive:
        pre = inventory([os.path.join(tree, "a"), b])
        d = c08.sh([fclones, "remove"], clidir, stdin=report, env=env)
        post = inventory([os.path.join(tree, "a"), b])
        ts_line = [l for l in report.split("\n") if l.startswith("# Timestamp:")][0]
        rec = {"cli_window": True, "inplace_nocopy_transform": inplace, "report_timestamp": ts_line, "edit_after_start_s": round(t_edit - t0, 3),
               "pre": {k.replace(tree + "/", ""): list(v) for k, v in pre.items()},
               "post": {k.replace(tree + "/", ""): list(v) for k, v in post.items()}, "remove_stderr": d.stderr[-800:].replace(clidir, "<dir>"),
               "how": "a, b = DDDDDDDD plus two large files; b rewritten with EEEEEEEE while `fclones group` was running, after b had "
                      "been hashed (the report lists a and b as one group); then `fclones remove < report`"}
        for pth in pre:
            if pre[pth] != post[pth] and pre[pth][0] == "file":
                if not any(q != pth and pre[q] == post[q] and pre[q][2] == pre[pth][2] for q in pre):
                    fails.append(("changed_between_hashing_and_report_timestamp", rec,
                                  "%s held %s and was removed although no other file holds these bytes: a same-length rewrite made "
                                  "WHILE `fclones group` was running went unnoticed (is the report stamped when it is written?)"
                                  % (os.path.basename(pth), bytes.fromhex(pre[pth][2]))))
    shutil.rmtree(clidir, ignore_errors=True)
    return conclusive, fails


K1_CASE = {"len": 4, "members": [{"path": "a"}, {"path": "b"}], "ops": [{"m": 1, "phase": 1, "kind": "write_same"}],
           "op": "rm", "iso": [], "nosize": False, "prio": [], "n": None, "format": "text", "mlinks": False}


def run(ctx):
    ctx.rule = ("histories driven through the real library in main.rs order: start_time ; group_files ; phase-1 operations ; write_report_at(start_time) ; "
                "phase-2 operations ; dedupe(modified_before = header time stamp) ; run_script.  Groups of 2-5 equal files (optionally "
                "a hard-link pair; 5/8 of the histories with isolated roots so that several files share a sub-group), 0-3 operations out of {rewrite same length / other length / same bytes, append, truncate, touch, "
                "unlink, recreate same length / other length / same bytes, replace by directory, fifo, dangling symlink, symlink to a "
                "directory} each on any member in either phase, 5 dedupe ops, no_check_size, priorities, text/json report; one case = "
                "one history; non-trivial = at least one operation and the dedupe run issued a command; distinct = distinct history "
                "description.  The former K1 history (same-length rewrite between hashing and the writing of the report, then remove) is case 0 of every run and 2 (thorough 6) runs rewrite a member while a real `fclones group` is still running; 35 directed histories change a "
                "NON-FIRST path of a multi-file isolated root / hard-link set after the report")
    ctx.assumptions = ["ordinary operations stamp mtime := the time they happen (C04's proviso); the kernel's coarse clock may stamp up to "
                       "one tick (4 ms) EARLIER than the wall clock, so the harness keeps 10 ms between the report and the operations",
                       "nothing else touches the scratch tree",
                       "a symlink to a regular file of the same length with an old mtime is an mtime-preserving replacement (outside "
                       "the guarantee, like cp -p) and is not generated"]
    ctx.trusted.append("C04: harness/src/bin/ddp.rs `hist` (operation replay with real clocks, inventories), the model-free inventory "
                       "oracle in vlib/props/c04.py")
    ctx.use_coq()
    model_bin = core.build_model("D")
    core.build_harness(["ddp"])
    scratch = os.path.join(ctx.scratch, "hist")
    os.makedirs(scratch, exist_ok=True)
    if ctx.replay:
        rp = json.load(open(ctx.replay))
        if rp.get("cli_window"):
            fl = []
            for k in range(4):
                conclusive, fl = run_cli_window(ctx, core.build_fclones(), os.path.join(ctx.scratch, "cliw"), k, inplace=rp.get("inplace_nocopy_transform", False))
                if conclusive:
                    break
            report(ctx, fl, model_bin, scratch)
            return
        if "cli_hist_spec" in rp:
            fl = run_cli_hist(ctx, rp["cli_hist_spec"], model_bin, core.build_fclones(), os.path.join(ctx.scratch, "cli"))
            report(ctx, fl, model_bin, scratch)
            return
        case = rp.get("minimised_case") or rp["case"]
        res, mo = run_both(ctx, [case], model_bin, scratch)
        report(ctx, examine(ctx, [case], res, mo), model_bin, scratch)
        return
    n = ctx.pick(600, 5000)
    cases = [dict(K1_CASE, id=0)]
    cases += [gen_hist(ctx.rng, i + 1) for i in range(n)]
    cases += directed_isolate_cases(50000)
    cases += directed_pinned_and_link_cases(60000)
    if not ctx.quick:
        # bounded exhaustive: every (operation kind, phase, dedupe op) on a 3-member group, each member position
        cid = 100000
        for kind in OP_KINDS:
            for phase in (1, 2):
                for op in c08.OPS:
                    for m in range(3):
                        for nosize in (False, True):
                            cases.append({"id": cid, "len": 3, "members": [{"path": "r0/a"}, {"path": "r0/b"}, {"path": "r1/c"}],
                                          "ops": [{"m": m, "phase": phase, "kind": kind, "arg": 1}], "op": op, "nosize": nosize,
                                          "iso": ["r1", "r0"] if cid % 2 else [],
                                          "prio": [], "n": None, "format": "text", "mlinks": False})
                            cid += 1
        ctx.extra["exhaustive_single_operation_histories"] = cid - 100000
    res, mo = run_both(ctx, cases, model_bin, scratch)
    fails = examine(ctx, cases, res, mo)
    fclones = core.build_fclones()
    for _ in range(ctx.pick(160, 1800)):
        fails += run_cli_hist(ctx, gen_cli_hist(ctx.rng), model_bin, fclones, os.path.join(ctx.scratch, "cli"))
    # the window while `group` is still running, at the level of the binary (K1 regression)
    want, got, tries = ctx.pick(2, 6), 0, 0
    while got < want and tries < want + 4:
        conclusive, fl = run_cli_window(ctx, fclones, os.path.join(ctx.scratch, "cliw"), tries)
        tries += 1
        ctx.bump("cli_rewrite_during_group_run", "conclusive" if conclusive else "inconclusive(edit not inside the window)")
        if conclusive:
            got += 1
            ctx.count()
            ctx.distinct(("cliw", tries), True)
            fails += fl
    # the same window with `--transform P $IN --in-place --no-copy` (the report of such a run is stamped like any other)
    for k in range(3):
        conclusive, fl = run_cli_window(ctx, fclones, os.path.join(ctx.scratch, "cliw_ip"), k, inplace=True)
        ctx.bump("cli_rewrite_during_group_run", "inplace_nocopy:" + ("conclusive" if conclusive else "inconclusive"))
        if conclusive:
            ctx.count()
            ctx.distinct(("cliw_ip", k), True)
            fails += fl
            break
    ctx.extra["cli_rewrite_during_group_run_conclusive"] = got
    if got == 0:
        raise RuntimeError("the rewrite-during-group-run scenario could not be placed inside the window in %d attempts" % tries)
    # groups that span several file systems whose files share inode NUMBERS (fresh tmpfs instances, private mount namespace)
    from . import mounts_rt
    mounts_rt.stale_member_colliding_inodes_check(ctx, ctx.pick(8, 60))
    report(ctx, fails, model_bin, scratch)
    ctx.extra["exhaustive"] = False
