"""Shared machinery of engine G (staged grouping): properties C01, C03, C06.

  * generator of tree specs (all randomness from the SplitMix64 stream handed in): sizes around every
    stage threshold relative to the configured prefix P / suffix S / suffix threshold, content families
    with single-byte differences in every position class, hard-link sets inside/across roots, file
    symlinks, repeated / nested roots, root spellings, the option product
  * materialiser (spec -> files under ctx.scratch), runner (harness `grp` = implementation side,
    extracted model `model_G`), canonical diff
  * direct oracles, model free: byte comparison of every reported group (C01); independent partition of
    the scanned files by bytes with the replica rule re-implemented from the property text (C03/C06)
  * neighbourhood search when model != implementation with a silent oracle (DESIGN 2.3), shrinking of
    oracle failures
A spec is a self-contained JSON object (the replay file), `$T` stands for the directory of the tree.
"""
import hashlib
import json
import os
import shutil
import subprocess
from concurrent.futures import ThreadPoolExecutor

from .. import core

GRP = os.path.join(core.BIN, "grp")
HASH_FNS = ["metro", "xxhash3", "blake3", "sha256", "sha512", "sha3-256", "sha3-512"]
KIB = 1024
SIZE_OPTS = [None, 1, 7, 4096, 5000, 16 * KIB, 70000, 1024 * KIB]
KIND_CONSTS = {"ssd": (4096, 4096, 4096, 65536), "hdd": (4096, 16384, 16384, 64 * KIB * KIB),
               "unknown": (4096, 16384, 16384, 64 * KIB * KIB)}   # only used to aim the generator
MAX_FILE = 210000
TRANSFORMS = [("cat", "keep"), ("head -c 5", "shrink"), ("head -c 4096", "shrink"), ("tr a b", "keep"),
              ("od -v -An -tx1", "expand"), ("tr -d a-m", "shrink"), ("false", "fail")]


# ------------------------------------------------------------------------------------------------
# contents

_base_cache = {}


def base_bytes(fam):
    b = _base_cache.get(fam)
    if b is None:
        b = hashlib.shake_128(b"fclones-verif-family-%d" % fam).digest(MAX_FILE + 16)
        if len(_base_cache) > 64:
            _base_cache.clear()
        _base_cache[fam] = b
    return b


def content_bytes(c):
    """c = {"fam": i, "len": n, "muts": [[pos, byte], ...]}"""
    n = c["len"]
    if c.get("fill") is not None:
        b = bytearray(bytes([c["fill"]]) * n)
    else:
        b = bytearray(base_bytes(c["fam"])[:n])
    for pos, val in c.get("muts", []):
        if 0 <= pos < n:
            b[pos] = val
    return bytes(b)


# ------------------------------------------------------------------------------------------------
# generator

def eff_params(opts, kinds):
    """(P, minP, S, thr) the implementation will use if all the given device kinds hold files."""
    ks = [KIND_CONSTS[k] for k in kinds] or [KIND_CONSTS["unknown"]]
    P = opts.get("max_prefix") if opts.get("max_prefix") is not None else max(k[1] for k in ks)
    S = opts.get("max_suffix") if opts.get("max_suffix") is not None else max(k[2] for k in ks)
    thr = max(k[3] for k in ks)
    return P, 4096, S, thr


def size_table(P, S, thr):
    t = [0, 1, 2, P - 1, P, P + 1, 4095, 4096, 4097, 16383, 16384, 16385, 65535, 65536, 65537,
         thr - 1, thr, thr + 1, 65536 + S - 1, 65536 + S, 65536 + S + 1, 131071, 131072, 131073, 200000,
         S - 1, S, S + 1, 3, 100, 5000]
    return sorted(set(x for x in t if 0 <= x <= MAX_FILE))


def mut_positions(n, P, S):
    """position classes for a single-byte difference in a file of length n"""
    cand = {"first": 0, "minP-1": 4095, "minP": 4096, "P-1": P - 1, "P": P, "middle": n // 2,
            "len-S-1": n - S - 1, "len-S": n - S, "last": n - 1, "64K-1": 65535, "64K": 65536, "64K+1": 65537,
            "128K-1": 131071, "128K": 131072}
    return {k: v for k, v in cand.items() if 0 <= v < n}


def gen_opts(rng, focus):
    o = {"rf_over": None, "rf_under": None, "unique": False, "isolate": False, "match_links": False,
         "symbolic_links": False, "follow_links": False, "max_prefix": None, "max_suffix": None,
         "min_size": 0, "max_size": None, "hash_fn": "metro", "transform": None, "skip_content_hash": False,
         "cache": False, "threads": None, "hidden": False}
    o["hash_fn"] = rng.choice(HASH_FNS) if rng.chance(2, 3) else "metro"
    r = rng.below(12)
    if r < 4:
        pass
    elif r < 7:
        o["rf_over"] = rng.choice([0, 1, 2, 3])
    elif r < 10:
        o["rf_under"] = rng.choice([1, 2, 3, 4, 5])
    else:
        o["unique"] = True
    if focus == "C06" and rng.chance(1, 2):
        o["match_links"] = rng.chance(1, 2)
    elif rng.chance(1, 5):
        o["match_links"] = True
    if rng.chance(1, 2):
        o["max_prefix"] = rng.choice(SIZE_OPTS)
    if rng.chance(1, 2):
        o["max_suffix"] = rng.choice(SIZE_OPTS)
    if rng.chance(1, 4):
        o["symbolic_links"] = True
    tr_odds = {"C01": (1, 5), "C03": (1, 6), "C06": (1, 10)}[focus]
    if rng.chance(*tr_odds):
        r = rng.below(10)
        o["transform"] = (rng.choice(TRANSFORMS[:-1])[0] if r < 7 else "cat $IN" if r == 7 else
                          "failsome.sh " + rng.choice(FAIL_MODES) if r == 8 else "false")
    if rng.chance(1, 12):
        o["min_size"] = rng.choice([1, 3, 4096, 4097])
    if rng.chance(1, 12):
        o["max_size"] = rng.choice([2, 4096, 65536, 100000])
    if rng.chance(1, 6):
        o["threads"] = rng.choice([[["default", 1, 1]], [["ssd", 2, 1]], [["default", 3, 2], ["hdd", 1, 1]],
                                   [["unknown", 1, 1]], [["default", 64, 64]]])
    if rng.chance(1, 25):
        o["cache"] = True
    return o


def gen_spec(rng, focus, small=False):
    """One tree + options.  focus in {"C01","C03","C06"} shifts the weights, the space is the same."""
    opts = gen_opts(rng, focus)
    kind = rng.choice(["ssd", "ssd", "ssd", "hdd", "unknown"])
    nroots = 1 + rng.below(4 if focus != "C01" else 3)
    root_dirs = ["r%d" % i for i in range(nroots)]
    dirs = list(root_dirs)
    for d in list(root_dirs):
        if rng.chance(1, 2):
            dirs.append(d + "/sub")
            if rng.chance(1, 3):
                dirs.append(d + "/sub/deep")
    outside = rng.chance(1, 6)          # a directory that is not below any root (reached through a link only)
    if outside:
        dirs.append("out")
    mounts = []
    if rng.chance(1, 4):
        for d in rng.shuffle(root_dirs)[:1 + rng.below(2)]:
            mounts.append([rng.choice(["ssd", "hdd", "unknown", kind]), d])
    kinds_present = [kind] + [m[0] for m in mounts]
    P, minP, S, thr = eff_params(opts, kinds_present)
    sizes = size_table(P, S, thr)
    nclasses = 1 + rng.below(3 if not small else 2)
    files, links, symlinks, contents = [], [], [], {}
    budget = 40 if not small else 10
    big_budget = 1_200_000
    file_dirs = [d for d in dirs if d != "out"] + (["out"] if outside else [])
    names = iter("f%02d" % i for i in range(200))
    used_paths = set()
    for ci in range(nclasses):
        n = rng.choice(sizes)
        if rng.chance(1, 3):
            n = rng.choice([x for x in sizes if x <= 20000] or sizes)
        fam = rng.below(1000)
        nvar = 1 + rng.below(3)
        variants = [[]]
        mp = mut_positions(n, P, S)
        for _ in range(nvar - 1):
            if not mp:
                break
            cls = rng.choice(sorted(mp))
            pos = mp[cls]
            variants.append([[pos, rng.below(256)]])
            if rng.chance(1, 6):                      # second difference somewhere else
                cls2 = rng.choice(sorted(mp))
                variants[-1].append([mp[cls2], rng.below(256)])
        for vi, muts in enumerate(variants):
            # a byte equal to the base byte would make the variant identical: force a real difference
            base = base_bytes(fam)
            muts = [[p, (v if v != base[p] else (v + 1) % 256)] for p, v in muts]
            cid = "c%d_%d" % (ci, vi)
            contents[cid] = {"fam": fam, "len": n, "muts": muts}
            copies = 1 + rng.below(4)
            if rng.chance(1, 4):
                copies = 1
            placed = []
            for _ in range(copies):
                if len(files) + len(links) >= budget or big_budget < n:
                    break
                d = rng.choice(file_dirs)
                p = d + "/" + next(names)
                files.append({"p": p, "c": cid})
                placed.append(p)
                big_budget -= n
            # hard links (inside and across roots) and file symlinks to some of the copies
            for p in placed:
                lk = {"C06": (1, 2), "C03": (1, 4), "C01": (1, 5)}[focus]
                while rng.chance(*lk) and len(files) + len(links) < budget:
                    d = rng.choice(file_dirs)
                    name = next(names)
                    same = d + "/" + p.split("/")[-1]
                    if rng.chance(1, 3) and d != p.rsplit("/", 1)[0] and same not in used_paths:
                        name = p.split("/")[-1]          # a hard link with the same file name in another directory
                    used_paths.add(d + "/" + name)
                    links.append({"p": d + "/" + name, "to": p})
                if rng.chance(1, 8):
                    d = rng.choice(file_dirs)
                    symlinks.append({"p": d + "/" + next(names), "to": "$T/" + p})
    if outside:
        # the files of `out` are visible only through file symlinks (with -S): members under no root
        for f in [f for f in files if f["p"].startswith("out/")]:
            symlinks.append({"p": rng.choice(root_dirs) + "/" + next(names), "to": "$T/" + f["p"]})
    # roots as given on the command line: repeated, nested, spelled differently
    paths = list(root_dirs)
    if rng.chance(1, 4):
        paths.append(rng.choice(root_dirs))                       # repeated root
    if rng.chance(1, 4):
        subs = [d for d in dirs if "/" in d]
        if subs:
            paths.append(rng.choice(subs))                        # nested root
    if rng.chance(1, 8) and files:
        paths.append(rng.choice(files)["p"])                      # a file given as an input path
    paths = rng.shuffle(paths)
    spell_odds = (1, 2) if focus == "C06" else (1, 5)
    spelled = []
    for p in paths:
        s = "plain"
        if rng.chance(*spell_odds):
            # a symlink to a FILE is a different scanned object (skipped without -S), so file roots are only
            # re-spelled in ways that name the same directory entry
            is_file_root = any(f["p"] == p for f in files)
            s = rng.choice(["dot", "dotdot", "abs"] if is_file_root else ["dot", "slash", "dotdot", "symlink", "linkup", "abs"])
        spelled.append([p, s])
    # options that depend on the number of roots
    if rng.chance(*((1, 2) if focus == "C06" else (1, 4))) and isolate_valid(opts, len(spelled)):
        opts["isolate"] = True
    spec = {"dirs": dirs, "files": files, "links": links, "symlinks": symlinks, "contents": contents,
            "roots": spelled, "opts": opts, "env": {"disk_kind": kind, "mounts": mounts},
            "probes": [[1, 65536], [0, 65535], [0, 65537], [3, 131072]] if rng.chance(1, 3) else []}
    if rng.chance(1, 6):
        add_boundary_twins(rng, spec)
    return spec


def k11_pred(spec):
    """the class of the repaired defect K11 (f4a00ae) on a spec: some file passes the suffix threshold of its device, is shorter than
    --max-prefix-size and not longer than --max-suffix-size"""
    o = spec["opts"]
    if o.get("max_prefix") is None or o.get("max_suffix") is None or o.get("transform"):
        return False
    kinds = [spec["env"].get("disk_kind") or "unknown"] + [m[0] for m in spec["env"].get("mounts", [])]
    thr_min = min(KIND_CONSTS[k][3] for k in kinds)
    return any(thr_min <= c["len"] < o["max_prefix"] and c["len"] <= o["max_suffix"] for c in spec["contents"].values())


def gen_k11_spec(rng):
    """trees aimed at the class of the repaired defect K11: SSD, --max-prefix-size above and --max-suffix-size not below the length of files >= 64 KiB"""
    spec = gen_spec(rng, "C01", small=True)
    o = spec["opts"]
    o["transform"] = None
    o["max_prefix"] = rng.choice([70000, 1024 * KIB])
    o["max_suffix"] = rng.choice([70000, 1024 * KIB])
    o["min_size"], o["max_size"] = 0, None
    spec["env"] = {"disk_kind": "ssd", "mounts": []}
    n = rng.choice([65536, 65537, 69999]) if o["max_prefix"] == 70000 else rng.choice([65536, 70000, 131072, 200000])
    fam = rng.below(1000)
    base = base_bytes(fam)
    spec["contents"] = {"a": {"fam": fam, "len": n, "muts": []},
                        "b": {"fam": fam, "len": n, "muts": [[n // 2, (base[n // 2] + 1) % 256]]}}
    d = spec["dirs"][0]
    spec["files"] = [{"p": d + "/k%d" % i, "c": "ab"[i % 2]} for i in range(4 + rng.below(2))]
    spec["links"], spec["symlinks"] = [], []
    spec["roots"] = [[d, "plain"]]
    o["isolate"] = False
    return spec


def isolate_valid(opts, npaths):
    """config.rs validate(): --isolate needs enough input paths"""
    rf_over = 0 if (opts["rf_under"] is not None or opts["unique"]) else (opts["rf_over"] if opts["rf_over"] is not None else 1)
    if npaths <= rf_over:
        return False
    if opts["rf_under"] is not None or opts["unique"]:
        rf_under = 2 if opts["unique"] else opts["rf_under"]
        if npaths < rf_under:
            return False
    return True


def spell(p, how, tdir):
    if how == "plain":
        return p
    if how == "dot":
        return "./" + p
    if how == "slash":
        return p + "/"
    if how == "dotdot":
        return p.split("/")[0] + "/../" + p
    if how == "symlink":
        return "lnk_" + p.replace("/", "_")
    if how == "linkup":
        # a top-level link to a CHILD directory of p, then `..`: physically p, lexically the top directory
        return "lnu_" + p.replace("/", "_") + "/.."
    if how == "abs":
        return tdir + "/" + p
    raise ValueError(how)


# ------------------------------------------------------------------------------------------------
# materialise

def materialise(spec, where):
    """Creates the tree under <where>/t and a tmp dir <where>/tmp; returns the harness case dict."""
    tdir = os.path.join(where, "t")
    tmp = os.path.join(where, "tmp")
    shutil.rmtree(where, ignore_errors=True)
    os.makedirs(tdir)
    os.makedirs(tmp)
    tdir = os.path.realpath(tdir)
    for d in spec["dirs"]:
        os.makedirs(os.path.join(tdir, d), exist_ok=True)
    cache = {}
    for f in spec["files"]:
        c = spec["contents"][f["c"]]
        b = cache.get(f["c"])
        if b is None:
            b = cache[f["c"]] = content_bytes(c)
        with open(os.path.join(tdir, f["p"]), "wb") as fh:
            fh.write(b)
    for l in spec["links"]:
        os.link(os.path.join(tdir, l["to"]), os.path.join(tdir, l["p"]))
    for s in spec["symlinks"]:
        os.symlink(s["to"].replace("$T", tdir), os.path.join(tdir, s["p"]))
    paths = []
    for p, how in spec["roots"]:
        if how == "symlink":
            ln = os.path.join(tdir, "lnk_" + p.replace("/", "_"))
            if not os.path.lexists(ln):
                os.symlink(os.path.join(tdir, p), ln)
        if how == "linkup":
            ln = os.path.join(tdir, "lnu_" + p.replace("/", "_"))
            if not os.path.lexists(ln):
                kids = sorted(d for d in spec["dirs"] if d.startswith(p + "/") and "/" not in d[len(p) + 1:])
                kid = kids[0] if kids else p + "/zz_sub"          # an empty directory changes no report
                os.makedirs(os.path.join(tdir, kid), exist_ok=True)
                os.symlink(os.path.join(tdir, kid), ln)
        paths.append(spell(p, how, tdir))
    env = {"disk_kind": spec["env"].get("disk_kind"),
           "mounts": ",".join("%s=%s" % (k, os.path.join(tdir, d)) for k, d in spec["env"].get("mounts", [])) or None,
           "path_prepend": HELPERS["dir"]}
    return {"base_dir": tdir, "paths": paths, "opts": spec["opts"], "env": env, "tmp": tmp,
            "probes": spec.get("probes", []), "nd": spec.get("nd", 0)}


# ------------------------------------------------------------------------------------------------
# canonical forms

def unhex_path(field):
    return b"/" + b"/".join(bytes.fromhex(c) for c in field.split(",")[1:])


def parse_groups(line):
    """'len:hash:p;p|...' -> [(len, hash, [path bytes])]"""
    if line == "-" or line == "":
        return []
    out = []
    for g in line.split("|"):
        ln, h, ps = g.split(":")
        out.append((int(ln), h, [unhex_path(p) for p in ps.split(";")]))
    return out


# ------------------------------------------------------------------------------------------------
# oracles (model free)

def transform_output(cmd, path, cache):
    k = (cmd, path)
    if k not in cache:
        env = dict(os.environ, IN=os.fsdecode(path))
        if HELPERS["dir"]:
            env["PATH"] = HELPERS["dir"] + ":" + env.get("PATH", "")
        with open(path, "rb") as fh:
            p = subprocess.run(["sh", "-c", cmd], stdin=fh, stdout=subprocess.PIPE, stderr=subprocess.DEVNULL, env=env)
        cache[k] = p.stdout if p.returncode == 0 else None
    return cache[k]


def file_view(opts, path, cache):
    """the bytes the property compares: the file, or the transform output (None = transform failed)"""
    if opts.get("transform"):
        return transform_output(opts["transform"], path, cache)
    k = ("", path)
    if k not in cache:
        with open(path, "rb") as fh:
            cache[k] = fh.read()
    return cache[k]


def oracle_c01(opts, groups, cache):
    """every reported group: same bytes, printed length = that length"""
    bad = []
    for ln, h, paths in groups:
        first = file_view(opts, paths[0], cache)
        for p in paths:
            b = file_view(opts, p, cache)
            if b is None or first is None or b != first:
                bad.append({"kind": "group_not_identical", "a": paths[0].decode("latin1"), "b": p.decode("latin1"),
                            "len": ln, "hash": h})
                break
        if first is not None and len(first) != ln:
            bad.append({"kind": "group_length_wrong", "reported": ln, "actual": len(first), "a": paths[0].decode("latin1")})
    return bad


def canonical_roots(case):
    """the input paths in the form the walk reports files under them (independent of config.rs)"""
    out = []
    for p in case["paths"]:
        a = p if os.path.isabs(p) else os.path.join(case["base_dir"], p)
        if os.path.isfile(a):
            a = a.rstrip("/")
            out.append(os.path.join(os.path.realpath(os.path.dirname(a)), os.path.basename(a)))
        else:
            out.append(os.path.realpath(a))
    return [os.fsencode(x) for x in out]


def is_under(root, path):
    return path == root or path.startswith(root.rstrip(b"/") + b"/")


def replica_count(opts, roots, members, ids):
    """The replica rule of C06 from the property text: with --isolate one replica per input root that holds a
    member (a member belongs to the first root, in command-line order, that contains it); members under no
    root count one per distinct (device, inode), or one per path with --match-links."""
    used_roots = set()
    rest = []
    for m in members:
        idx = None
        if opts.get("isolate"):
            for i, r in enumerate(roots):
                if is_under(r, m):
                    idx = i
                    break
        if idx is None:
            rest.append(m)
        else:
            used_roots.add(idx)
    if opts.get("match_links"):
        return len(used_roots) + len(rest)
    return len(used_roots) + len(set(ids[m] for m in rest))


def class_reported(opts, count):
    if opts.get("unique"):
        return count < 2
    if opts.get("rf_under") is not None:
        return count < opts["rf_under"]
    rf = opts["rf_over"] if opts.get("rf_over") is not None else 1
    return count > rf


def oracle_partition(case, opts, scanned, groups, cache):
    """C03/C06: the expected report, as a set of sets of paths, from the scanned paths alone."""
    bad = []
    ids, lens = {}, {}
    for field, dev, ino, devidx, ln in scanned:
        p = unhex_path(field)
        ids[p] = (dev, ino)
        lens[p] = ln
    paths = sorted(ids)
    lo = opts.get("min_size") or 0
    hi = opts.get("max_size")
    paths = [p for p in paths if lens[p] >= lo and (hi is None or lens[p] <= hi)]
    classes = {}
    for p in paths:
        b = file_view(opts, p, cache)
        if b is None:
            continue
        classes.setdefault(b, []).append(p)
    roots = canonical_roots(case)
    expected = set()
    for b, members in classes.items():
        c = replica_count(opts, roots, members, ids)
        if class_reported(opts, c):
            expected.add(frozenset(members))
    got = [frozenset(ps) for _, _, ps in groups]
    seen = {}
    for _, _, ps in groups:
        for p in ps:
            seen[p] = seen.get(p, 0) + 1
            if p not in ids:
                bad.append({"kind": "path_not_scanned", "path": p.decode("latin1")})
    for p, k in seen.items():
        if k > 1:
            bad.append({"kind": "path_listed_twice", "path": p.decode("latin1"), "times": k})
    gotset = set(got)
    for e in expected - gotset:
        # classify: split / dropped / incomplete
        parts = [g for g in gotset if g & e]
        if not parts:
            kind = "class_dropped"
        elif all(g <= e for g in parts) and len(parts) > 1:
            kind = "class_split"
        elif len(parts) == 1 and parts[0] < e:
            kind = "class_incomplete"
        else:
            kind = "class_wrong"
        bad.append({"kind": kind, "expected": sorted(x.decode("latin1") for x in e),
                    "got": [sorted(x.decode("latin1") for x in g) for g in parts]})
    for g in gotset - expected:
        if any(g & e for e in expected):
            continue       # already reported from the expected side
        # a reported group that is no qualifying class
        views = set(file_view(opts, p, cache) for p in g)
        kind = "group_merges_classes" if len(views) > 1 else "class_reported_but_filtered"
        bad.append({"kind": kind, "got": sorted(x.decode("latin1") for x in g)})
    return bad


# ------------------------------------------------------------------------------------------------
# running

def run_grp(cases, prefix, timeout=420):
    """cases through the harness; the case stream travels in files because Transform::new spawns the transform
    program with inherited stdin/stdout"""
    fin, fout = prefix + ".in", prefix + ".out"
    with open(fin, "w") as f:
        for c in cases:
            f.write(json.dumps(c) + "\n")
    p = core.run([GRP, fin, fout], timeout=timeout)
    if p.returncode != 0:
        raise RuntimeError("grp exited %d: %s" % (p.returncode, p.stderr[-2000:]))
    outs = [json.loads(l) for l in open(fout).read().split("\n") if l]
    if len(outs) != len(cases):
        raise RuntimeError("grp: %d results for %d cases" % (len(outs), len(cases)))
    os.remove(fin)
    os.remove(fout)
    return outs


def run_grp_lines(lines, prefix):
    """plain line cases (Q ...) through the harness, sharded over the cores"""
    from concurrent.futures import ThreadPoolExecutor
    shards = list(core.chunks(lines, max(1, (len(lines) + core.NCPU - 1) // core.NCPU)))

    def one(i):
        fin, fout = "%s_%d.in" % (prefix, i), "%s_%d.out" % (prefix, i)
        with open(fin, "w") as f:
            f.write("\n".join(shards[i]) + "\n")
        p = core.run([GRP, fin, fout], timeout=900)
        if p.returncode != 0:
            raise RuntimeError("grp exited %d: %s" % (p.returncode, p.stderr[-2000:]))
        out = [l for l in open(fout).read().split("\n") if l]
        os.remove(fin)
        os.remove(fout)
        if len(out) != len(shards[i]):
            raise RuntimeError("grp: %d results for %d lines" % (len(out), len(shards[i])))
        return out
    with ThreadPoolExecutor(max_workers=core.NCPU) as ex:
        parts = list(ex.map(one, range(len(shards))))
    return [x for p in parts for x in p]


HELPER_SCRIPTS = {
    # opens its input, waits, then copies it: widens the window in which a shared temp copy would be overwritten
    "slowcat.sh": '#!/bin/sh\n[ -n "$1" ] || exit 0\nexec 3<"$1" || exit 1\nsleep 0.03\ncat <&3\n',
    # copies stdin to stdout, but for inputs whose first byte is odd it fails in the way named by $1
    "failsome.sh": '#!/bin/sh\nt=$(mktemp -p "${VERIF_HELPER_TMP:-/tmp}") || exit 2\ncat > "$t"\nfirst=$(head -c 1 "$t" | od -An -tu1 | tr -d " \\n")\n'
                   'if [ -n "$first" ] && [ $((first % 2)) -eq 1 ]; then\n  case "$1" in\n'
                   '    exit1_partial) head -c 3 "$t"; rm -f "$t"; exit 1;;\n    exit1_none) rm -f "$t"; exit 1;;\n'
                   '    segv_partial) head -c 3 "$t"; rm -f "$t"; kill -SEGV $$;;\n    segv_none) rm -f "$t"; kill -SEGV $$;;\n'
                   '    kill9_partial) head -c 3 "$t"; rm -f "$t"; kill -9 $$;;\n  esac\nfi\ncat "$t"; rm -f "$t"\n',
}
FAIL_MODES = ["exit1_partial", "exit1_none", "segv_partial", "segv_none", "kill9_partial"]
HELPERS = {"dir": None}


def install_helpers(scratch):
    d = os.path.join(scratch, "helpers")
    os.makedirs(d, exist_ok=True)
    # the helper scripts that are killed on purpose cannot remove their temporary file: keep those inside the scratch area
    os.makedirs(os.path.join(scratch, "helper_tmp"), exist_ok=True)
    os.environ["VERIF_HELPER_TMP"] = os.path.join(scratch, "helper_tmp")
    for name, body in HELPER_SCRIPTS.items():
        pth = os.path.join(d, name)
        with open(pth, "w") as f:
            f.write(body)
        os.chmod(pth, 0o755)
    HELPERS["dir"] = d
    return d


class Engine:
    def __init__(self, ctx, focus):
        self.ctx = ctx
        self.focus = focus
        self.model = core.build_model("G")
        core.build_harness(["grp"])
        self.seq = 0
        install_helpers(ctx.scratch)

    def run_specs(self, specs, keep=False):
        """materialise + run implementation and model for a batch; returns list of result dicts"""
        def one_batch(batch):
            cases, dirs = [], []
            for idx, spec in batch:
                where = os.path.join(self.ctx.scratch, "c%d" % idx)
                cases.append(materialise(spec, where))
                dirs.append(where)
            import subprocess
            try:
                outs = run_grp(cases, os.path.join(self.ctx.scratch, "b%d" % batch[0][0]))
            except subprocess.TimeoutExpired:
                # fclones::group_files does not return on some case of the batch: find it (one case at a time, 120 s each),
                # report it as a hang with the spec as the failing input and go on with the others
                keep_idx, outs = [], []
                for k, case in enumerate(cases):
                    try:
                        p1 = run_grp([case], os.path.join(self.ctx.scratch, "b%d_%d" % (batch[0][0], k)), timeout=120)
                        keep_idx.append(k)
                        outs += p1
                    except subprocess.TimeoutExpired:
                        self.ctx.violation({"kind": "hang"}, "fclones::group_files did not return within 120 s on a generated tree "
                                           "(transform %r)" % (batch[k][1]["opts"].get("transform"),),
                                           {"spec": batch[k][1], "replay_cmd": "./check %s --replay <this file>" % self.ctx.prop}, found_input=True)
                batch = [batch[k] for k in keep_idx]
                cases = [cases[k] for k in keep_idx]
                dirs = [dirs[k] for k in keep_idx]
            mlines = core.run_lines(self.model, [o.get("model_in", "") for o in outs], timeout=900) if outs else []
            res = []
            for (idx, spec), case, out, m, where in zip(batch, cases, outs, mlines, dirs):
                r = {"spec": spec, "case": case, "out": out, "model": m, "where": where}
                self.evaluate(r)
                res.append(r)
                if not keep:
                    shutil.rmtree(where, ignore_errors=True)
            return res
        numbered = []
        for s in specs:
            numbered.append((self.seq, s))
            self.seq += 1
        size = max(1, min(8, (len(numbered) + core.NCPU - 1) // core.NCPU))
        batches = list(core.chunks(numbered, size))
        with ThreadPoolExecutor(max_workers=core.NCPU) as ex:
            parts = list(ex.map(one_batch, batches))
        return [r for p in parts for r in p]

    def evaluate(self, r):
        """fills r["oracle_bad"], r["corr_bad"] while the tree still exists"""
        out, case, spec = r["out"], r["case"], r["spec"]
        opts = spec["opts"]
        impl = out.get("impl", "ERR no output")
        r["oracle_bad"], r["corr_bad"] = [], []
        if impl.startswith("ERR") or impl.startswith("PANIC"):
            r["oracle_bad"].append({"kind": "run_failed", "impl": impl[:300]})
            return
        groups = parse_groups(impl)
        r["groups"] = groups
        cache = {}
        if not opts.get("skip_content_hash"):
            r["oracle_bad"] += oracle_c01(opts, groups, cache)
        r["oracle_bad"] += oracle_partition(case, opts, out["scanned"], groups, cache)
        if r["model"] != impl:
            r["corr_bad"].append({"kind": "model_ne_impl", "model": r["model"][:2000], "impl": impl[:2000]})
        for b in out.get("hashref_bad", []):
            r["corr_bad"].append({"kind": "hash_not_of_chunk_bytes", "what": b[:500]})
        # wf: hard links really share an inode, distinct files really do not
        ids = {}
        for field, dev, ino, devidx, ln in out["scanned"]:
            ids.setdefault((dev, ino), set()).add(ln)
        if any(len(v) > 1 for v in ids.values()):
            r["corr_bad"].append({"kind": "harness_wf", "what": "one inode with two lengths"})
        lens = [x[4] for x in out["scanned"]]
        r["nontrivial"] = len(groups) > 0 or len(lens) != len(set(lens))


def check_consts(ctx, model, results):
    """device.rs constants used by the model = what the implementation's DiskDevice methods return"""
    line = core.run_lines(model, ["K"])[0].split()
    table = {k: tuple(int(x) for x in v.split(",")) for k, v in zip(["s", "h", "u"], line)}
    for r in results:
        for idx, kind, a, b, c, d in r["out"].get("devices", []):
            if table[kind] != (a, b, c, d):
                ctx.violation({"kind": "device_constants"},
                              "device.rs constants for kind %s are %s, the model (GroupModel.v) has %s" % (kind, (a, b, c, d), table[kind]),
                              {"kind_of_device": kind, "implementation": [a, b, c, d], "model": list(table[kind])}, found_input=False)
                return


def neighbourhood(rng, spec):
    """bounded set of variants of a disagreeing case (DESIGN 2.3): every option toggled, sizes moved to the
    stage thresholds +-1, difference positions moved to every position class"""
    out = []
    o = spec["opts"]
    for k in ("match_links", "isolate", "unique", "symbolic_links", "skip_content_hash"):
        s = json.loads(json.dumps(spec))
        s["opts"][k] = not o.get(k)
        if k == "isolate" and not isolate_valid(s["opts"], len(s["roots"])):
            continue
        if k == "skip_content_hash":
            continue
        out.append(s)
    for v in SIZE_OPTS:
        for k in ("max_prefix", "max_suffix"):
            if o.get(k) != v:
                s = json.loads(json.dumps(spec))
                s["opts"][k] = v
                out.append(s)
    for kind in ("ssd", "hdd", "unknown"):
        if spec["env"].get("disk_kind") != kind:
            s = json.loads(json.dumps(spec))
            s["env"]["disk_kind"] = kind
            out.append(s)
    P, _, S, thr = eff_params(o, [spec["env"].get("disk_kind") or "unknown"])
    for n in size_table(P, S, thr):
        s = json.loads(json.dumps(spec))
        for c in s["contents"].values():
            c["len"] = n
        out.append(s)
    for cid, c in spec["contents"].items():
        if c.get("muts"):
            for cls, pos in sorted(mut_positions(c["len"], P, S).items()):
                s = json.loads(json.dumps(spec))
                s["contents"][cid]["muts"] = [[pos, (base_bytes(c["fam"])[pos] + 1) % 256]]
                out.append(s)
    return rng.shuffle(out)[:60]


def shrink(engine, spec, still_bad, budget=30):
    """delta debugging by rounds: all single removals of a file / link / symlink / root are tried in parallel, every
    removal that keeps the failure is applied (re-validated together), at most 4 rounds"""
    def removals(cur):
        out = []
        for key in ("links", "symlinks", "files"):
            for i in range(len(cur[key])):
                s = json.loads(json.dumps(cur))
                victim = s[key].pop(i)
                if key == "files":
                    s["links"] = [l for l in s["links"] if l["to"] != victim["p"]]
                    s["symlinks"] = [l for l in s["symlinks"] if l["to"] != "$T/" + victim["p"]]
                    if any(p == victim["p"] for p, _ in s["roots"]):
                        continue
                out.append((key, victim, s))
        return out[:budget]
    cur = spec
    for _ in range(4):
        cands = removals(cur)
        if not cands:
            break
        try:
            res = engine.run_specs([c[2] for c in cands])
        except Exception:
            break
        good = [c for c, r in zip(cands, res) if still_bad(r)]
        if not good:
            break
        # apply all removable items at once if the failure survives, else only the first
        s = json.loads(json.dumps(cur))
        for key, victim, _ in good:
            s[key] = [x for x in s[key] if x != victim]
            if key == "files":
                s["links"] = [l for l in s["links"] if l["to"] != victim["p"]]
                s["symlinks"] = [l for l in s["symlinks"] if l["to"] != "$T/" + victim["p"]]
        try:
            ok = still_bad(engine.run_specs([s])[0])
        except Exception:
            ok = False
        cur = s if ok else good[0][2]
    return cur


def describe(spec):
    o = spec["opts"]
    return {"files": len(spec["files"]), "links": len(spec["links"]), "symlinks": len(spec["symlinks"]),
            "roots": spec["roots"], "opts": {k: v for k, v in o.items() if v not in (None, False, 0)},
            "env": spec["env"], "sizes": sorted(set(c["len"] for c in spec["contents"].values()))}


def replay_payload(r, extra=None):
    p = {"spec": r["spec"], "impl": r["out"].get("impl", "")[:4000], "model": r["model"][:4000],
         "oracle": r["oracle_bad"][:5], "correspondence": r["corr_bad"][:5],
         "how_to_replay": "./check <property> --replay <this file>  (re-materialises spec under .cache/scratch, "
                          "runs .cache/target/debug/grp and .cache/model_G on it)"}
    if extra:
        p.update(extra)
    return p


def bump_hist(ctx, r):
    spec, out = r["spec"], r["out"]
    o = spec["opts"]
    ctx.bump("disk_kind", spec["env"].get("disk_kind"))
    ctx.bump("fake_mounts", len(spec["env"].get("mounts", [])))
    ctx.bump("hash_fn", o["hash_fn"])
    ctx.bump("transform", o["transform"] or "none")
    mode = "unique" if o["unique"] else ("rf_under=%d" % o["rf_under"] if o["rf_under"] is not None else
                                         "rf_over=%s" % (o["rf_over"] if o["rf_over"] is not None else "default"))
    ctx.bump("replication", mode)
    ctx.bump("isolate", bool(o["isolate"]))
    ctx.bump("match_links", bool(o["match_links"]))
    ctx.bump("symbolic_links", bool(o["symbolic_links"]))
    ctx.bump("max_prefix", o["max_prefix"])
    ctx.bump("max_suffix", o["max_suffix"])
    ctx.bump("roots", len(spec["roots"]))
    for _, how in spec["roots"]:
        ctx.bump("root_spelling", how)
    ctx.bump("hard_links", min(len(spec["links"]), 6))
    ctx.bump("scanned_files", min(len(out.get("scanned", [])) // 5 * 5, 40))
    ctx.bump("reported_groups", min(len(r.get("groups", [])), 6))
    P, _, S, thr = eff_params(o, [spec["env"].get("disk_kind") or "unknown"] + [m[0] for m in spec["env"].get("mounts", [])])
    for c in spec["contents"].values():
        n = c["len"]
        rel = ("0" if n == 0 else "<minP" if n < 4096 else "<P" if n < P else "=P" if n == P else
               "<thr" if n < thr else ">=thr")
        ctx.bump("size_vs_stage", rel)
        if n in (65535, 65536, 65537, 131071, 131072, 131073):
            ctx.bump("buffer_boundary_size", n)
        for pos, _ in c.get("muts", []):
            cls = [k for k, v in mut_positions(n, P, S).items() if v == pos]
            ctx.bump("diff_position", cls[0] if cls else "other")
    if o.get("threads"):
        ctx.bump("threads", json.dumps(o["threads"]))
    if o.get("cache"):
        ctx.bump("cache", "on")


def run_generated(ctx, focus, n_cases, oracle_kinds=None):
    """The shared body of C01 / C03 / C06: generated trees, correspondence + oracles, reporting.
    oracle_kinds: the oracle failure kinds that belong to this property (others are still reported, they
    mean the implementation broke a sibling property on an input this check generated)."""
    eng = Engine(ctx, focus)
    cdir = os.path.join(core.VERIF, "corpus", ctx.prop)
    corpus = []
    if os.path.isdir(cdir):
        for f in sorted(os.listdir(cdir)):
            if f.endswith(".json"):
                corpus.append(json.load(open(os.path.join(cdir, f)))["spec"])
    if corpus:
        ctx.bump("corpus_cases", len(corpus))
        process_results(ctx, eng, eng.run_specs(corpus))
    specs = [gen_spec(ctx.rng.fork(), focus) for _ in range(n_cases)]
    results = eng.run_specs(specs)
    check_consts(ctx, eng.model, results[:3])
    process_results(ctx, eng, results)
    return eng, results


OWN_KINDS = {
    "C01": {"group_not_identical", "group_length_wrong", "group_merges_classes", "run_failed"},
    "C03": {"path_not_scanned", "path_listed_twice", "class_split", "class_dropped", "class_incomplete", "class_wrong",
            "group_merges_classes", "class_reported_but_filtered", "run_failed"},
    "C06": {"class_dropped", "class_reported_but_filtered", "class_incomplete", "class_wrong", "spelling_changes_report",
            "count_rule", "run_failed"},
}


def process_results(ctx, eng, results, do_search=True):
    first_corr = None
    own = OWN_KINDS[eng.focus]
    for r in results:
        sib = [b for b in r["oracle_bad"] if b["kind"] not in own]
        for b in sib:
            d = ctx.extra.setdefault("oracle_failures_of_sibling_properties_seen", {})
            d[b["kind"]] = d.get(b["kind"], 0) + 1
        r["oracle_bad"] = [b for b in r["oracle_bad"] if b["kind"] in own]
    for r in results:
        ctx.count()
        ctx.extra["hash_chunks_checked_against_reference"] = ctx.extra.get("hash_chunks_checked_against_reference", 0) + r["out"].get("hash_checked", 0)
        ctx.distinct(json.dumps(r["spec"], sort_keys=True), r.get("nontrivial", False))
        bump_hist(ctx, r)
        if len(ctx.samples) < 4:
            ctx.sample({"case": describe(r["spec"]), "impl": r["out"].get("impl", "")[:300], "model_equal": r["model"] == r["out"].get("impl")})
        if r["oracle_bad"]:
            b = r["oracle_bad"][0]
            kind = b["kind"]

            def still(rr, kind=kind):
                return any(x["kind"] == kind for x in rr["oracle_bad"])
            small = r["spec"]
            if not hasattr(ctx, "_shrunk_kinds"):
                ctx._shrunk_kinds = []
            shrunk = ctx._shrunk_kinds
            rr = r
            if kind not in shrunk:
                shrunk.append(kind)
                small = shrink(eng, r["spec"], still, budget=30)
                rr = eng.run_specs([small])[0]
                if not still(rr):
                    rr = r
                else:   # report the failure of the kind that was shrunk first
                    rr["oracle_bad"] = [x for x in rr["oracle_bad"] if x["kind"] == kind] + [x for x in rr["oracle_bad"] if x["kind"] != kind]
            oo = rr["spec"]["opts"]
            ctx.violation({"kind": kind, "transform": bool(oo.get("transform")), "k11": k11_pred(rr["spec"]),
                           "under": bool(oo.get("unique") or oo.get("rf_under") is not None),
                           "isolate": bool(oo.get("isolate"))},
                          "fclones group violates the property on a generated tree: %s" % json.dumps(rr["oracle_bad"][0])[:600],
                          replay_payload(rr), found_input=True)
        elif r["corr_bad"] and first_corr is None:
            first_corr = r
    if first_corr is not None and any(v[3] for v in ctx.violations):
        # a concrete failing input was already found by the oracle: it is the replay (DESIGN 2.3)
        ctx.extra["model_ne_impl_cases"] = sum(1 for x in results if x["corr_bad"])
        core.log("model/implementation disagreement on %d cases (a failing input is already reported)" % ctx.extra["model_ne_impl_cases"])
    elif first_corr is not None:
        r = first_corr
        found = None
        if do_search:
            neigh = neighbourhood(ctx.rng.fork(), r["spec"])
            for rr in eng.run_specs(neigh):
                ctx.count()
                if rr["oracle_bad"]:
                    found = rr
                    break
        if found is not None:
            b = found["oracle_bad"][0]
            ctx.violation({"kind": b["kind"]}, "model and implementation disagree; a neighbouring input violates the property: %s" % json.dumps(b)[:600],
                          replay_payload(found, {"found_near": describe(r["spec"])}), found_input=True)
        else:
            b = r["corr_bad"][0]
            ctx.violation({"kind": b["kind"]},
                          "correspondence broken (%s): the model of coq/GroupModel.v no longer describes group.rs/hasher.rs; "
                          "no input violating the property found in the neighbourhood: %s" % (b["kind"], json.dumps(b)[:500]),
                          replay_payload(r, {"disagreeing_cases": sum(1 for x in results if x["corr_bad"])}), found_input=False)


def run_replay(ctx, focus):
    rp = json.load(open(ctx.replay))
    eng = Engine(ctx, focus)
    results = eng.run_specs([rp["spec"]])
    process_results(ctx, eng, results, do_search=False)
    return eng, results


def rel_groups(r):
    """report body with paths relative to the tree (for comparing runs on different copies of one tree)"""
    base = os.fsencode(r["case"]["base_dir"]) + b"/"
    out = []
    for ln, h, ps in parse_groups(r["out"].get("impl", "-")) if not r["out"].get("impl", "").startswith(("ERR", "PANIC")) else []:
        out.append((ln, h, [p[len(base):] if p.startswith(base) else p for p in ps]))
    return out


def cli_args(case, stdin_roots=False):
    o = case["opts"]
    a = ["group", "-f", "json", "--no-ignore", "--base-dir", case["base_dir"]]
    if o.get("cache"):
        a.append("--cache")
    if stdin_roots:
        a.append("--stdin")
    if o.get("rf_over") is not None:
        a += ["--rf-over", str(o["rf_over"])]
    if o.get("rf_under") is not None:
        a += ["--rf-under", str(o["rf_under"])]
    for k, flag in (("unique", "--unique"), ("isolate", "--isolate"), ("match_links", "--match-links"),
                    ("symbolic_links", "--symbolic-links"), ("follow_links", "--follow-links")):
        if o.get(k):
            a.append(flag)
    if o.get("max_prefix") is not None:
        a += ["--max-prefix-size", str(o["max_prefix"])]
    if o.get("max_suffix") is not None:
        a += ["--max-suffix-size", str(o["max_suffix"])]
    a += ["--min", str(o.get("min_size") or 0)]      # the CLI default is 1, GroupConfig::default() has 0
    if o.get("max_size") is not None:
        a += ["--max", str(o["max_size"])]
    a += ["--hash-fn", {"xxhash3": "xxhash"}.get(o.get("hash_fn", "metro"), o.get("hash_fn", "metro"))]
    if o.get("transform"):
        a += ["--transform", o["transform"]]
    for t in o.get("threads") or []:
        a += ["--threads", "%s:%d,%d" % (t[0], t[1], t[2])]
    return a + ([] if stdin_roots else list(case["paths"]))


def run_cli(fclones_bin, case, stdin_roots=False):
    """the same case through the command-line binary; returns the report body in the canonical form or 'ERR ..'"""
    env = {"TMPDIR": case["tmp"], "XDG_CACHE_HOME": case["tmp"] + "/cache"}
    if case["env"].get("path_prepend"):
        env["PATH"] = case["env"]["path_prepend"] + ":" + os.environ.get("PATH", "")
    if case["env"].get("disk_kind"):
        env["FCLONES_VERIF_DISK_KIND"] = case["env"]["disk_kind"]
    if case["env"].get("mounts"):
        env["FCLONES_VERIF_MOUNTS"] = case["env"]["mounts"]
    p = core.run([fclones_bin] + cli_args(case, stdin_roots), env=env, timeout=300, cwd=case["base_dir"],
                 input=("\n".join(case["paths"]) + "\n") if stdin_roots else None)
    if p.returncode != 0:
        return "ERR exit %d: %s" % (p.returncode, p.stderr[-300:])
    try:
        rep = json.loads(p.stdout)
    except Exception as e:  # noqa
        return "ERR unparsable json report: %r" % (e,)
    gs = []
    for g in rep.get("groups", []):
        gs.append((g["file_len"], g["file_hash"], [os.fsencode(x) for x in g["files"]]))
    return gs


def add_boundary_twins(rng, spec):
    """component-boundary twins: two DISTINCT paths of one inode whose component bytes concatenate to the same string
    (a/bc vs ab/c, x/yz vs xy/z, a/b/c vs ab/c) + a copy elsewhere so that the class is reported; a path hash that loses
    component boundaries makes deduplicate (keyed by inode, unique_by path.hash128()) drop one of them"""
    root = rng.choice([p for p, _ in spec["roots"] if not any(f["p"] == p for f in spec["files"])] or [spec["dirs"][0]])
    kind = rng.choice([("a/bc", "ab/c"), ("x/yz", "xy/z"), ("a/b/c", "ab/c"), ("q/rs.txt", "qr/s.txt")])
    tag = "tw%d" % rng.below(1000)
    base = root + "/" + tag
    p1, p2 = base + "/" + kind[0], base + "/" + kind[1]
    for p in (p1, p2):
        d = p.rsplit("/", 1)[0]
        parts = d.split("/")
        for i in range(1, len(parts) + 1):
            dd = "/".join(parts[:i])
            if dd not in spec["dirs"]:
                spec["dirs"].append(dd)
    cid = "twin_%s" % tag
    n = rng.choice([1, 100, 4096, 5000, 20000])
    spec["contents"][cid] = {"fam": rng.below(1000), "len": n, "muts": []}
    spec["files"].append({"p": p1, "c": cid})
    spec["links"].append({"p": p2, "to": p1})
    spec["files"].append({"p": base + "/copy", "c": cid})
    return spec


def gen_in_transform_spec(rng, failing=False):
    """trees for the transform dimension: the SAME base names in several directories holding different contents of equal
    length (and some true duplicates), SSD pin (multi-threaded sequential pool); transform through `$IN` (temp copy) or,
    with failing=True, through a program that fails for inputs whose first byte is odd"""
    spec = gen_spec(rng, "C01", small=True)
    dirs = ["r0/d%d" % i for i in range(2 + rng.below(3))]
    spec["dirs"] = ["r0"] + dirs
    spec["roots"] = [["r0", "plain"]]
    spec["links"], spec["symlinks"], spec["files"], spec["contents"] = [], [], [], {}
    fam = rng.below(1000)
    n = rng.choice([1, 3, 64, 1000, 4096, 5000, 70000])
    base = base_bytes(fam)
    names = ["n%d" % i for i in range(2 + rng.below(3))]
    for ni, name in enumerate(names):
        for di, d in enumerate(dirs):
            # variant per (name, dir): equal to the first directory's content, or one byte changed (often the first byte)
            if di == 0 or rng.chance(1, 3):
                muts = [[0, (base[0] + 2 * ni + 1) % 256]] if (failing and ni % 2 == 1 and n > 0) else []
            else:
                pos = 0 if rng.chance(1, 2) else rng.below(max(n, 1))
                muts = [[pos, (base[pos] + 1 + di) % 256]] if n > 0 else []
            cid = "t%d_%d" % (ni, di)
            spec["contents"][cid] = {"fam": fam, "len": n, "muts": muts}
            spec["files"].append({"p": d + "/" + name, "c": cid})
    o = spec["opts"]
    # (the hash cache together with a `$IN` / `$OUT` transform: the transform's private temp directory must outlive the set-up)
    o.update({"isolate": False, "symbolic_links": False, "min_size": 0, "max_size": None, "cache": (not failing) and rng.chance(1, 2),
              "rf_over": rng.choice([None, 0, 1]), "rf_under": None, "unique": False, "match_links": False})
    if failing:
        o["transform"] = "failsome.sh " + rng.choice(FAIL_MODES)
    else:
        o["transform"] = rng.choice(["cat $IN", "slowcat.sh $IN", "slowcat.sh $IN"])
    o["threads"] = rng.choice([None, [["ssd", 8, 8]], [["default", 8, 8]]])
    spec["env"] = {"disk_kind": "ssd", "mounts": []}
    spec["probes"] = []
    return spec


def gen_stdin_spec(rng, focus):
    """trees for the input-mode dimension: roots that repeat, nest and overlap, files given as roots next to the
    directory that holds them (what `find ... | fclones group --stdin` produces)"""
    s = gen_spec(rng, focus, small=True)
    o = s["opts"]
    o["isolate"] = False           # --isolate needs the roots on the command line (config.rs validate)
    # no transform together with --stdin: Transform::new probes the program by spawning it with INHERITED stdin/stdout, so
    # the probe can swallow the root list and write into the report (racy; recorded in notes/G.md as a finding)
    o["transform"] = None
    roots = [p for p, _ in s["roots"]]
    dirs = [d for d in s["dirs"] if d != "out"]
    extra = []
    if rng.chance(2, 3):
        extra.append(rng.choice(roots))                                   # repeated line
    if rng.chance(2, 3) and s["files"]:
        extra += [f["p"] for f in rng.shuffle(s["files"])[:1 + rng.below(3)]]  # files inside a root that is also given
    if rng.chance(1, 2):
        sub = [d for d in dirs if "/" in d]
        if sub:
            extra.append(rng.choice(sub))                                 # nested directory
    if rng.chance(1, 3) and s["files"]:
        f = rng.choice(s["files"])["p"]
        extra += [f, f]                                                   # the same file twice
    s["roots"] = [[p, "plain"] for p in rng.shuffle(roots + extra)]
    if rng.chance(1, 2):
        add_boundary_twins(rng, s)
    return s


def stdin_mode_check(ctx, eng, specs):
    """input-mode dimension at the CLI layer: the binary with the roots on argv and with the same roots on --stdin must
    print the body fclones::group_files returned, and the --stdin report must satisfy the partition oracle"""
    import shutil
    fbin = core.build_fclones()
    res = eng.run_specs(specs, keep=True)
    for r in res:
        ctx.count(2)
        ctx.bump("input_mode", "argv+stdin")
        ctx.bump("stdin_roots", min(len(r["case"]["paths"]), 8))
        api = r["out"].get("impl", "ERR")
        try:
            if api.startswith(("ERR", "PANIC")):
                continue
            apig = parse_groups(api)
            for mode in (False, True):
                cli = run_cli(fbin, r["case"], stdin_roots=mode)
                name = "stdin" if mode else "argv"
                if isinstance(cli, str):
                    ctx.violation({"kind": "cli_failed", "input_mode": name}, "fclones group (%s roots) failed: %s" % (name, cli[:300]),
                                  replay_payload(r, {"cli_args": cli_args(r["case"], mode), "stdin": r["case"]["paths"] if mode else None}),
                                  found_input=True)
                    continue
                cache = {}
                bad = oracle_partition(r["case"], r["spec"]["opts"], r["out"]["scanned"], cli, cache)
                if not r["spec"]["opts"].get("skip_content_hash"):
                    bad += oracle_c01(r["spec"]["opts"], cli, cache)
                bad = [b for b in bad if b["kind"] in OWN_KINDS[eng.focus]]
                if bad:
                    ctx.violation({"kind": bad[0]["kind"], "input_mode": name},
                                  "fclones group with the roots on %s violates the property: %s" % (name, json.dumps(bad[0])[:500]),
                                  replay_payload(r, {"cli_args": cli_args(r["case"], mode), "stdin": r["case"]["paths"] if mode else None,
                                                     "oracle_on_cli_report": bad[:4]}), found_input=True)
                elif [(a, b, c) for a, b, c in cli] != [(a, b, c) for a, b, c in apig]:
                    ctx.violation({"kind": "cli_ne_api", "input_mode": name},
                                  "the binary with the roots on %s and fclones::group_files disagree on the report body" % name,
                                  replay_payload(r, {"cli_args": cli_args(r["case"], mode), "cli": str(cli)[:1500]}), found_input=False)
        finally:
            shutil.rmtree(r["where"], ignore_errors=True)
    process_results(ctx, eng, res, do_search=False)


def cache_history_check(ctx, eng, n):
    """C01 'with or without the hash cache': group --cache, overwrite some reported members in place with same-length
    different content and a different mtime (older / newer / same second), group --cache again; every group of the second
    report is byte-compared"""
    import shutil
    fbin = core.build_fclones()
    specs = []
    for _ in range(n):
        s = gen_spec(ctx.rng.fork(), "C01", small=True)
        o = s["opts"]
        o.update({"cache": True, "transform": None, "min_size": 0, "max_size": None, "unique": False, "rf_under": None,
                  "isolate": False, "symbolic_links": False})
        if o.get("rf_over") == 0:
            o["rf_over"] = None
        # make sure there is something to report: every content at least twice
        for cid in list(s["contents"]):
            have = [f for f in s["files"] if f["c"] == cid]
            if len(have) == 1:
                s["files"].append({"p": have[0]["p"] + "_copy", "c": cid})
        s["symlinks"] = []
        specs.append(s)
    res = eng.run_specs(specs, keep=True)       # the API run does not use the cache directory of the CLI runs below
    for r in res:
        try:
            case = dict(r["case"])
            first = run_cli(fbin, case)
            ctx.count()
            if isinstance(first, str):
                ctx.violation({"kind": "cli_failed", "input_mode": "cache"}, "group --cache failed: " + first[:300],
                              replay_payload(r, {"cli_args": cli_args(case)}), found_input=True)
                continue
            cands = [g for g in first if len(g[2]) >= 2 and g[0] >= 1]
            if not cands:
                ctx.bump("cache_history", "nothing_reported")
                continue
            edits = []
            for ei, (ln, h, paths) in enumerate(ctx.rng.shuffle(cands)[:2]):
                victim = ctx.rng.choice(paths)
                # every history restores at least one member with an OLDER mtime (cp -p / rsync --inplace of an old version)
                how = ctx.rng.choice(["older", "much_older"]) if ei == 0 else ctx.rng.choice(["older", "newer", "same_second", "much_older"])
                st = os.stat(victim)
                pos = ctx.rng.below(ln)
                with open(victim, "r+b") as fh:
                    fh.seek(pos)
                    b = fh.read(1)
                    fh.seek(pos)
                    fh.write(bytes([(b[0] + 1) % 256]))
                old = st.st_mtime_ns
                if how == "older":
                    new = old - 100 * 10**9
                elif how == "much_older":
                    new = old - 400 * 86400 * 10**9
                elif how == "newer":
                    new = old + 100 * 10**9
                else:
                    sec = old // 10**9
                    new = sec * 10**9 + ((old % 10**9) + 500 * 10**6) % 10**9       # same second, other millisecond
                    if new == old:
                        new = old + 10**6
                os.utime(victim, ns=(new, new))
                edits.append({"path": victim.decode("latin1"), "byte": pos, "mtime": how})
                ctx.bump("cache_history", how)
            second = run_cli(fbin, case)
            ctx.count()
            ctx.distinct(("cache_history", json.dumps(r["spec"], sort_keys=True), json.dumps(edits)), True)
            if isinstance(second, str):
                ctx.violation({"kind": "cli_failed", "input_mode": "cache"}, "second group --cache failed: " + second[:300],
                              replay_payload(r, {"cli_args": cli_args(case), "edits": edits}), found_input=True)
                continue
            bad = oracle_c01(r["spec"]["opts"], second, {})
            if bad:
                ctx.violation({"kind": bad[0]["kind"], "cache": True},
                              "group --cache after an in-place rewrite (same length, other content, mtime %s) reports files that are not "
                              "identical: %s" % ([e["mtime"] for e in edits], json.dumps(bad[0])[:400]),
                              replay_payload(r, {"history": ["fclones " + " ".join(cli_args(case)), edits, "fclones " + " ".join(cli_args(case))],
                                                 "second_report_oracle": bad[:3]}), found_input=True)
        finally:
            shutil.rmtree(r["where"], ignore_errors=True)


def gen_q_case(rng):
    """a pure replica-counting case: 0-3 roots (possibly nested / repeated), 1-7 paths inside and outside the
    roots, an inode per path drawn from a small pool (hard links inside and across roots)"""
    def hexpath(p):
        return ",".join(["2f"] + [c.encode().hex() for c in p.strip("/").split("/") if c])
    pool = ["/a", "/b", "/a/s", "/c", "/b/t"]
    roots = []
    for _ in range(rng.below(4)):
        roots.append(rng.choice(pool))
    dirs = pool + ["/x", "/a/s/u", "/ab"]
    nfiles = 1 + rng.below(7)
    ninodes = 1 + rng.below(nfiles)
    files = []
    for i in range(nfiles):
        d = rng.choice(dirs)
        files.append((d + "/f%d" % i, 1 + rng.below(2) if rng.chance(1, 8) else 1, 100 + rng.below(ninodes)))
    repl = ("O%d" % rng.below(4)) if rng.chance(1, 2) else ("U%d" % (1 + rng.below(5)))
    by_id = rng.below(2)
    line = "Q %s %d %s %s" % (repl, by_id, ";".join(hexpath(r) for r in roots) or "-",
                              ";".join("%s:%d:%d:0:3" % (hexpath(p), dev, ino) for p, dev, ino in files))
    return line, roots, files, repl, by_id


def q_reference(roots, files, repl, by_id):
    """the counting rule of the property text on a pure case -> (count, reported)"""
    used, rest = set(), []
    for p, dev, ino in files:
        idx = None
        for i, r in enumerate(roots):
            if p == r or p.startswith(r + "/"):
                idx = i
                break
        if idx is None:
            rest.append((p, dev, ino))
        else:
            used.add(idx)
    k = len(used) + (len(set((d, i) for _, d, i in rest)) if by_id else len(rest))
    n = int(repl[1:])
    return k, (k > n if repl[0] == "O" else k < n)


# ------------------------------------------------------------------------------------------------
# model-level hooks for C13 / C15 (the Coq theorems of Props_C13.v / Props_C15.v speak about the extracted model;
# these hooks evaluate exactly those statements on the model for generated trees and tie them to the implementation)

def _split_model_in(line):
    f = line.split(" ")
    files = [] if f[11] == "-" else f[11].split(";")
    hashes = [] if f[12] == "-" else f[12].split(";")
    return f, files, hashes


def _join_model_in(f, files, hashes):
    f = list(f)
    f[11] = ";".join(files) or "-"
    f[12] = ";".join(hashes) or "-"
    return " ".join(f)


def permute_model_in(line, rng, nd):
    """the same case with another nondeterminism record and the scanned table in another order"""
    f, files, hashes = _split_model_in(line)
    order = rng.shuffle(list(range(len(files))))
    newidx = {old: new for new, old in enumerate(order)}
    files2 = [files[i] for i in order]
    hashes2 = []
    for e in hashes:
        i, rest = e.split(":", 1)
        hashes2.append("%d:%s" % (newidx[int(i)], rest))
    f[0] = str(nd)
    return _join_model_in(f, files2, rng.shuffle(hashes2))


def fault_model_in(line, victim):
    """(a) every chunk hash / transform of the paths of inode `victim` fails; (b) those paths are not scanned at all"""
    f, files, hashes = _split_model_in(line)
    vic = [i for i, e in enumerate(files) if tuple(e.split(":")[1:3]) == victim]
    a = []
    for e in hashes:
        p = e.split(":")
        if int(p[0]) in vic:
            p[3] = "!"
            if p[1] == "T":
                p[2] = "!"
        a.append(":".join(p))
    keep = [i for i in range(len(files)) if i not in vic]
    newidx = {old: new for new, old in enumerate(keep)}
    b = ["%d:%s" % (newidx[int(e.split(":", 1)[0])], e.split(":", 1)[1]) for e in hashes if int(e.split(":", 1)[0]) not in vic]
    return _join_model_in(f, files, a), _join_model_in(f, [files[i] for i in keep], b), [files[i].split(":")[0] for i in vic]


def fault_model_in_path(line, vidx):
    """path-specific fault: (a) every chunk hash / transform of the ONE scanned path number vidx fails (its hard links stay
    readable); (b) that path is not scanned at all"""
    f, files, hashes = _split_model_in(line)
    vpath = files[vidx].split(":")[0]
    vic = [i for i, e in enumerate(files) if e.split(":")[0] == vpath]      # a path scanned twice is one path
    a = []
    for e in hashes:
        p = e.split(":")
        if int(p[0]) in vic:
            p[3] = "!"
            if p[1] == "T":
                p[2] = "!"
        a.append(":".join(p))
    keep = [i for i in range(len(files)) if i not in vic]
    newidx = {old: new for new, old in enumerate(keep)}
    b = ["%d:%s" % (newidx[int(e.split(":", 1)[0])], e.split(":", 1)[1]) for e in hashes if int(e.split(":", 1)[0]) not in vic]
    return _join_model_in(f, files, a), _join_model_in(f, [files[i] for i in keep], b), vpath


def spec_without_paths(spec, vrel):
    """the tree spec without the given relative paths (a hard link whose target entry is removed becomes the file)"""
    spec2 = json.loads(json.dumps(spec))
    spec2["files"] = [f for f in spec2["files"] if f["p"] not in vrel]
    spec2["links"] = [l for l in spec2["links"] if l["p"] not in vrel]
    have = set(f["p"] for f in spec2["files"])
    for l in list(spec2["links"]):
        if l["to"] not in have:
            orig = [f for f in spec["files"] if f["p"] == l["to"]][0]
            spec2["files"].append({"p": l["p"], "c": orig["c"]})
            spec2["links"].remove(l)
            have.add(l["p"])
            for l2 in spec2["links"]:
                if l2["to"] == l["to"]:
                    l2["to"] = l["p"]
    return spec2


def partition_of(line, base=None):
    out = set()
    for ln, h, ps in parse_groups(line):
        if base is not None:
            ps = [p[len(base):] if p.startswith(base) else p for p in ps]
        out.add((ln, frozenset(ps)))
    return out


def model_schedule_check(ctx, n_trees):
    """C13 hook: the extracted model under nd modes 1 and 2 and permuted scanned tables prints the report body of
    fclones::group_files (= the model under mode 0)."""
    eng = Engine(ctx, "C03")
    specs = [gen_spec(ctx.rng.fork(), "C03", small=ctx.rng.chance(1, 2)) for _ in range(n_trees)]
    res = [r for r in eng.run_specs(specs) if not r["out"].get("impl", "ERR").startswith(("ERR", "PANIC"))]
    lines, owner = [], []
    for r in res:
        for nd in (1, 2):
            lines.append(permute_model_in(r["out"]["model_in"], ctx.rng.fork(), nd))
            owner.append((r, nd))
    outs = core.run_lines_parallel(eng.model, lines) if lines else []
    for (r, nd), o in zip(owner, outs):
        ctx.count()
        ctx.bump("model_schedule_hook", "nd=%d" % nd)
        ctx.distinct(("model_schedule", json.dumps(r["spec"], sort_keys=True), nd), len(r.get("groups", [])) > 0)
        if o != r["out"]["impl"]:
            ctx.violation({"kind": "model_schedule_dependent"},
                          "the extracted model under nondeterminism mode %d / a permuted scan order does not print the report body of "
                          "group_files: model=%s impl=%s" % (nd, o[:300], r["out"]["impl"][:300]),
                          replay_payload(r, {"nd": nd}), found_input=False)
            return


def model_fault_check(ctx, n_trees):
    """C15 hook: in the extracted model, failing every read of one inode — and, separately, of ONE PATH of a hard-linked
    inode — gives the partition of (a) the model and (b) the implementation on the tree without that inode / path (single
    device kind, default filter, no roots: the setting in which the partition cannot depend on when the file left the
    pipeline)."""
    eng = Engine(ctx, "C03")
    specs = []
    for _ in range(n_trees):
        s = gen_spec(ctx.rng.fork(), "C03", small=ctx.rng.chance(1, 2))
        o = s["opts"]
        o.update({"isolate": False, "match_links": False, "unique": False, "rf_under": None, "transform": None,
                  "symbolic_links": False, "min_size": 0, "max_size": None})
        if o.get("rf_over") == 0:
            o["rf_over"] = None
        s["env"]["mounts"] = []
        s["symlinks"] = []
        s["roots"] = [[p, h] for p, h in s["roots"] if not any(f["p"] == p for f in s["files"])] or [[s["dirs"][0], "plain"]]
        specs.append(s)
    res = [r for r in eng.run_specs(specs) if not r["out"].get("impl", "ERR").startswith(("ERR", "PANIC")) and r["out"]["scanned"]]
    todo = []
    for r in res:
        sc = r["out"]["scanned"]
        dev, ino = ctx.rng.choice(sc)[1:3]
        victim = (str(dev), str(ino))
        a, b, vpaths = fault_model_in(r["out"]["model_in"], victim)
        base = os.fsencode(r["case"]["base_dir"]) + b"/"
        vrel = set(unhex_path(p)[len(base):].decode("latin1") for p in vpaths)
        spec2 = json.loads(json.dumps(r["spec"]))
        spec2["files"] = [f for f in spec2["files"] if f["p"] not in vrel]
        spec2["links"] = [l for l in spec2["links"] if l["p"] not in vrel]
        # a hard link whose target file entry was removed becomes the file itself
        have = set(f["p"] for f in spec2["files"])
        for l in list(spec2["links"]):
            if l["to"] not in have:
                orig = [f for f in r["spec"]["files"] if f["p"] == l["to"]][0]
                spec2["files"].append({"p": l["p"], "c": orig["c"]})
                spec2["links"].remove(l)
                have.add(l["p"])
                for l2 in spec2["links"]:
                    if l2["to"] == l["to"]:
                        l2["to"] = l["p"]
        todo.append((r, a, b, spec2, base, vrel))
    if not todo:
        return
    ma = core.run_lines_parallel(eng.model, [t[1] for t in todo])
    mb = core.run_lines_parallel(eng.model, [t[2] for t in todo])
    impl = eng.run_specs([t[3] for t in todo])
    for (r, a, b, spec2, base, vrel), oa, ob, ri in zip(todo, ma, mb, impl):
        ctx.count()
        ctx.bump("model_fault_hook", "victim_links=%d" % min(len(vrel), 4))
        ctx.distinct(("model_fault", json.dumps(r["spec"], sort_keys=True), sorted(vrel)), len(r.get("groups", [])) > 0)
        if oa.startswith("EXN") or ob.startswith("EXN"):
            ctx.violation({"kind": "model_fault_hook_failed"}, "model failed: %s / %s" % (oa[:200], ob[:200]), replay_payload(r), found_input=False)
            return
        pa, pb = partition_of(oa, base), partition_of(ob, base)
        base2 = os.fsencode(ri["case"]["base_dir"]) + b"/"
        pi = partition_of(ri["out"].get("impl", "-"), base2) if not ri["out"].get("impl", "ERR").startswith(("ERR", "PANIC")) else None
        if pa != pb or pa != pi:
            ctx.violation({"kind": "model_fault_not_isolated"},
                          "failing every read of one inode (%s) in the extracted model does not give the partition of the run without it: "
                          "faulty=%s without(model)=%s without(implementation)=%s" % (sorted(vrel), sorted(map(str, pa))[:3], sorted(map(str, pb))[:3],
                                                                                    sorted(map(str, pi or []))[:3]),
                          replay_payload(r, {"victim_paths": sorted(vrel)}), found_input=False)
            return
    # path-specific faults (the K5 class, repaired): ONE path of an inode with several hard links cannot be read.  By
    # C15_readable_not_lost its readable links must be grouped exactly as if the path were not there; the unreadable path
    # itself is left out when it is tried, or rides along unread behind a readable link of its inode (C15_unread_path_reported)
    todo = []
    for r in res:
        sc = r["out"]["scanned"]
        by_ino = {}
        for i, e in enumerate(sc):
            by_ino.setdefault((e[1], e[2]), set()).add(e[0])
        multi = [i for i, e in enumerate(sc) if len(by_ino[(e[1], e[2])]) > 1]
        if not multi:
            continue
        vidx = ctx.rng.choice(multi)
        a, b, vpath = fault_model_in_path(r["out"]["model_in"], vidx)
        base = os.fsencode(r["case"]["base_dir"]) + b"/"
        vrel = unhex_path(vpath)[len(base):].decode("latin1")
        sibs = set(unhex_path(p)[len(base):] for p in by_ino[(sc[vidx][1], sc[vidx][2])]) - {vrel.encode("latin1")}
        todo.append((r, a, b, spec_without_paths(r["spec"], {vrel}), base, vrel, sibs))
    if not todo:
        return
    ma = core.run_lines_parallel(eng.model, [t[1] for t in todo])
    mb = core.run_lines_parallel(eng.model, [t[2] for t in todo])
    impl = eng.run_specs([t[3] for t in todo])
    for (r, a, b, spec2, base, vrel, sibs), oa, ob, ri in zip(todo, ma, mb, impl):
        ctx.count()
        ctx.distinct(("model_path_fault", json.dumps(r["spec"], sort_keys=True), vrel), len(r.get("groups", [])) > 0)
        if oa.startswith("EXN") or ob.startswith("EXN"):
            ctx.violation({"kind": "model_fault_hook_failed"}, "model failed: %s / %s" % (oa[:200], ob[:200]), replay_payload(r), found_input=False)
            return
        v = vrel.encode("latin1")
        pa_full, pb = partition_of(oa, base), partition_of(ob, base)
        rides = [g for g in pa_full if v in g[1]]
        ctx.bump("model_path_fault_hook", "victim_%s" % ("rides_along_unread" if rides else "left_out"))
        bad_ride = [g for g in rides if not (g[1] & sibs)]
        pa = set((ln, frozenset(ps - {v})) for ln, ps in pa_full)
        pa = set(g for g in pa if g[1])
        base2 = os.fsencode(ri["case"]["base_dir"]) + b"/"
        pi = partition_of(ri["out"].get("impl", "-"), base2) if not ri["out"].get("impl", "ERR").startswith(("ERR", "PANIC")) else None
        if pa != pb or pa != pi or bad_ride:
            ctx.violation({"kind": "model_path_fault_not_isolated"},
                          "failing every read of ONE path (%s) of a hard-linked inode in the extracted model: its readable links are not grouped as in "
                          "the run without that path: faulty=%s without(model)=%s without(implementation)=%s" % (
                              vrel, sorted(map(str, pa_full))[:3], sorted(map(str, pb))[:3], sorted(map(str, pi or []))[:3]),
                          replay_payload(r, {"victim_path": vrel}), found_input=False)
            return


COMMON_ASSUMPTIONS = [
    "collision-freedom of the final hash key on the contents present (explicit hypothesis of C01_sound / C03; cryptographic, not provable)",
    "Path::hash128 (MetroHash128 of the path) is injective on the paths present (deduplicate is modelled with path equality)",
    "the transform program is a deterministic function of the file bytes (hypothesis of the transform theorems; the harness compares "
    "hash_transformed with its own run of the command)",
    "every digest has at least 16 bytes (u128_prefix cannot panic); asserted on every hash the harness sees",
]
COMMON_TRUSTED = [
    "engine G: harness/src/bin/grp.rs (GroupConfig built from option JSON, quiet Log, the implementation's own Walk / FileMetadata / "
    "DiskDevices used to produce the file table given to the model, FileHasher::hash_file / hash_transformed used to produce the hash "
    "table, one-shot reference hashes with the metrohash/xxhash-rust/blake3/sha2/sha3 crates)",
    "engine G: python oracles in vlib/props/grp_common.py (byte comparison; partition by bytes + replica rule from the property text); "
    "sh/coreutils for the reference runs of transform commands; the kernel's st_dev/st_ino identity of hard links",
    "verification hooks FCLONES_VERIF_DISK_KIND / FCLONES_VERIF_MOUNTS in device.rs (cfg(fclones_verif)) pin the disk kind / add fake devices",
]
