"""C15 — an unreadable or vanishing file affects only itself (engines G, shim/rdshim.c).

Proof obligations: coq/Props_C15.v (fault isolation in the grouping model).
Runtime tie: the binary built from /repo is run on scenario trees under the LD_PRELOAD read-side
fault injector (shim/rdshim.c): EACCES / EIO / ENOENT at stat, open, the n-th read, opendir, the
n-th readdir, readlink and the extent query of every entry.  Oracle (model-free): the run exits 0
with a report; only the faulted entry (for a directory: entries below it) may be missing; every
other file is grouped exactly as in the fault-free run; a file with a failed read is never
reported; a warning names the entry unless it simply vanished (ENOENT).
"""
import os

from .. import core, treegen
from . import grp_common

ERRNOS = {13: "EACCES", 5: "EIO", 2: "ENOENT"}


def build_scenario(rng, base, idx):
    """Small trees with duplicate classes across directories, a multi-buffer file class, hard links."""
    t = treegen.Tree(base)
    root = os.path.join(t.base, b"r")
    t.roots.append(root)
    big = treegen.content(rng.next(), 200000)
    mid = treegen.content(rng.next(), 9000)
    small = treegen.content(rng.next(), 100)
    t.add_file(os.path.join(root, b"a", b"big1"), big, 0)
    t.add_file(os.path.join(root, b"b", b"big2"), big, 0)
    t.add_file(os.path.join(root, b"b", b"sub", b"big3"), big, 0)
    t.add_file(os.path.join(root, b"a", b"bigv"), treegen.variant(big, 150000), 1)
    t.add_file(os.path.join(root, b"a", b"mid1"), mid, 2)
    t.add_file(os.path.join(root, b"b", b"mid2"), mid, 2)
    t.add_file(os.path.join(root, b"c", b"mid3"), mid, 2)
    t.add_file(os.path.join(root, b"c", b"midv"), treegen.variant(mid, 8000), 3)
    t.add_file(os.path.join(root, b"a", b"s1"), small, 4)
    t.add_file(os.path.join(root, b"c", b"deep", b"er", b"s2"), small, 4)
    t.add_file(os.path.join(root, b"c", b"uniq"), treegen.content(rng.next(), 777), 5)
    # empty files (scanned with --min 0): there is nothing to read, but a file that cannot be opened is still left out
    t.add_file(os.path.join(root, b"a", b"e1"), b"", 6)
    t.add_file(os.path.join(root, b"b", b"e2"), b"", 6)
    t.add_file(os.path.join(root, b"c", b"e3"), b"", 6)
    if idx % 2 == 0:
        t.add_hardlink(os.path.join(root, b"a", b"mid1"), os.path.join(root, b"c", b"mid1_link"))
    # several hard-linked files of one size class (location-ordered hashing on HDD-like devices must cope with links of one
    # inode that are not adjacent after sorting, e.g. when the extent query fails for one of them)
    for k in range(4):
        src = os.path.join(root, b"h", b"hf%d" % k)
        t.add_file(src, mid if k % 2 == 0 else treegen.variant(mid, 100 + k), 2 if k % 2 == 0 else 7 + k)
        t.add_hardlink(src, os.path.join(root, b"h", b"hf%d.lnk" % k))
    # extents must be allocated for the extent query to return physical locations
    for d, _, fs in os.walk(root):
        for f in fs:
            try:
                fd = os.open(os.path.join(d, f), os.O_RDONLY)
                os.fsync(fd)
                os.close(fd)
            except OSError:
                pass
    # links: a file link (listed with -S, transparent with -L) and a directory link to a directory OUTSIDE the scanned
    # root, whose files are reachable only through the link (scanned with -L)
    t.add_symlink(os.path.join(root, b"a", b"s1"), os.path.join(root, b"b", b"s1_sym"))
    out = os.path.join(t.base, b"outside")
    t.add_file(os.path.join(out, b"o_small"), small, 4)
    t.add_file(os.path.join(out, b"in", b"o_mid"), mid, 2)
    t.add_symlink(out, os.path.join(root, b"c", b"out_link"))
    t.outside = out
    return t


def group_run(roots, extra, env, timeout=120):
    rc, out, err = treegen.fclones(["group"] + roots + ["-f", "json"] + extra, env=env, timeout=timeout)
    groups = None
    if rc == 0:
        try:
            _, groups = treegen.parse_json_report(out.decode("utf-8"))
        except Exception:  # noqa
            groups = None
    return rc, groups, err.decode("utf-8", "replace")


def run(ctx):
    ctx.rule = ("scenario trees x (entry, call class, n-th call, errno) with the LD_PRELOAD read-side fault injector; an evaluation is one "
                "faulted run; non-trivial = the injector log shows the fault was actually delivered; distinct = distinct (tree, entry, call, nth, errno)")
    ctx.assumptions = ["the injector sees every read-side libc call fclones makes on the entry (Rust std goes through statx/open64/read/"
                       "opendir/readdir64/readlink/ioctl; verified by the log on every run)",
                       "other processes do not modify the scratch tree"]
    ctx.trusted.append("C15: shim/rdshim.c (LD_PRELOAD interposer) and the python oracle in vlib/props/c15.py")
    ctx.use_coq()
    core.build_fclones()
    shim = os.path.join(core.CACHE, "rdshim.so")
    src = os.path.join(core.VERIF, "shim", "rdshim.c")
    if not os.path.exists(shim) or os.path.getmtime(shim) < os.path.getmtime(src):
        core.run(["gcc", "-O1", "-shared", "-fPIC", "-o", shim, src, "-ldl"], check=True)
    ntrees = ctx.pick(3, 12)
    per_tree = ctx.pick(40, 300)
    for ti in range(2 * ntrees):
        # every scenario tree is explored twice: with the default filter and with --rf-over 0 (every scanned file listed)
        if ti % 2 == 0:
            rng = ctx.rng.fork()
            rng_state = rng.s
        else:
            rng = core.SplitMix64(0)
            rng.s = rng_state
        base = os.path.join(ctx.scratch, "t%d" % ti)
        tree = build_scenario(rng, base, ti // 2)
        roots = tree.roots
        links = ["--symbolic-links", "--follow-links", None][(ti // 2) % 3]
        extra0 = ([links] if links else []) + ["--min", "0"]
        # the device kind decides the access strategy (HDD/unknown: extent query and location-ordered hashing)
        disk_kind = ["hdd", "ssd", "unknown"][(ti // 2) % 3]
        env0 = {"FCLONES_VERIF_DISK_KIND": disk_kind}
        mode = [["--rf-over", "0"], []][ti % 2]
        rc, base_groups, err = group_run(roots, extra0 + mode, env0)
        if rc != 0 or base_groups is None:
            raise RuntimeError("fault-free run failed: %s" % err[-400:])
        rc0, all_groups, _ = group_run(roots, extra0 + ["--rf-over", "0"], env0)
        cls_of = {}
        for gi, g in enumerate(all_groups):
            for p in g["files"]:
                cls_of[p] = (g["len"], g["hash"])
        ids = {p: (os.stat(p).st_dev, os.stat(p).st_ino) for p in cls_of}
        files = sorted(cls_of)
        dirs = sorted({os.path.dirname(p) for p in files} | {roots[0]})
        cases = []
        for p in files:
            nreads = max(1, (os.stat(p).st_size + 65535) // 65536) + 1
            for call, nths in (("stat", [0, 1]), ("open", [0, 1, 2, 3]), ("read", [0] + list(range(1, nreads + 1))), ("fiemap", [0])):
                for n in nths:
                    cases.append((p, call, n))
        for d in dirs:
            for call, nths in (("opendir", [0]), ("readdir", [0, 1, 2, 3]), ("stat", [0])):
                for n in nths:
                    # an input path that cannot be stat'ed makes fclones refuse to start (main.rs check_input_paths_exist,
                    # deliberate fail-fast on the command-line arguments): outside the property, not generated
                    if not (call == "stat" and d in roots):
                        cases.append((d, call, n))
        for lp, _ in tree.symlinks:
            cases += [(lp, "readlink", 0), (lp, "stat", 0)]
        cases = rng.shuffle(cases)[:per_tree] if ctx.quick or len(cases) > per_tree else cases
        multi = {i for i in ids.values() if list(ids.values()).count(i) > 1}
        must = [(p, "fiemap", 0) for p in files if ids[p] in multi and disk_kind != "ssd"] + \
               [(p, "open", 0) for p in files if os.stat(p).st_size == 0]
        cases = must + [c for c in cases if c not in must]
        if links:
            # faults on the links themselves are never lost to sampling
            cases = [(lp, call, 0) for lp, _ in tree.symlinks for call in ("readlink", "stat")] + \
                    [c for c in cases if not any(c[0] == lp for lp, _ in tree.symlinks)]
        for (ent, call, nth) in cases:
            eno = rng.choice(list(ERRNOS))
            logf = os.path.join(ctx.scratch, "rdshim.log")
            if os.path.exists(logf):
                os.remove(logf)
            env = dict(env0, LD_PRELOAD=shim, RDSHIM_PATH=ent.decode(), RDSHIM_CALL=call, RDSHIM_ERRNO=str(eno),
                       RDSHIM_NTH=str(nth), RDSHIM_LOG=logf)
            rc, groups, err = group_run(roots, extra0 + mode, env)
            ctx.count()
            log = open(logf).read().split("\n") if os.path.exists(logf) else []
            delivered = [l for l in log if " fail " in l]
            ctx.distinct((ti, ent, call, nth, eno), bool(delivered))
            ctx.bump("call", call)
            ctx.bump("errno", ERRNOS[eno])
            ctx.bump("delivered", bool(delivered))
            ctx.bump("entry_kind", "dir" if ent in dirs else ("symlink" if any(ent == l for l, _ in tree.symlinks) else "file"))
            payload = {"tree": "c15.build_scenario index %d (VERIF_SEED=%d)" % (ti, ctx.seed), "entry": ent.decode(), "call": call, "nth": nth,
                       "errno": ERRNOS[eno], "opts": extra0 + mode, "stderr": err[-1500:],
                       "replay": "LD_PRELOAD=%s RDSHIM_PATH=%s RDSHIM_CALL=%s RDSHIM_ERRNO=%d RDSHIM_NTH=%d fclones group %s %s" % (
                           shim, ent.decode(), call, eno, nth, roots[0].decode(), " ".join(extra0 + mode))}
            if rc != 0 or groups is None:
                ctx.violation({"kind": "run_failed_under_fault", "call": call},
                              "fclones group exited %d / no report when %s of %s failed with %s" % (rc, call, ent.decode(), ERRNOS[eno]),
                              payload, found_input=True)
                continue
            if not delivered and call == "open" and nth == 0 and eno != 2 and ent in ids:
                # every open of the entry would fail, yet fclones never tried: it must not vouch for the file's content.
                # (only for files that are the sole path of their inode and are listed together with another file)
                sole = list(ids.values()).count(ids[ent]) == 1
                for g in groups or []:
                    if sole and ent in g["files"] and len({ids.get(p) for p in g["files"]}) > 1:
                        ctx.violation({"kind": "unopenable_file_reported_as_duplicate"},
                                      "%s cannot be opened (%s on every open) and was never opened, but is reported as a duplicate of %s" % (
                                          ent.decode(), ERRNOS[eno], [p.decode() for p in g["files"] if p != ent][:3]), payload, found_input=True)
            if not delivered:
                # the fault was never triggered: the run must equal the fault-free run
                if treegen.body_key(groups) != treegen.body_key(base_groups):
                    ctx.violation({"kind": "result_changed_without_fault"}, "report differs although no fault was delivered", payload, found_input=True)
                continue
            got_files = {p for g in groups for p in g["files"]}
            base_files = {p for g in base_groups for p in g["files"]}
            is_dir = ent in dirs
            under = {p for p in cls_of if p == ent or p.startswith(ent + b"/")} if is_dir else {ent}
            # followed directory links: everything reachable only through the link is lost with the link / its directory
            for lp, _ in tree.symlinks:
                if links == "--follow-links" and os.path.isdir(lp) and (lp == ent or (is_dir and lp.startswith(ent + b"/"))):
                    real = os.path.realpath(lp)
                    under |= {p for p in cls_of if os.path.realpath(p).startswith(real + b"/")}
            sib_links = {p for p in cls_of if p != ent and not is_dir and ent in ids and ids.get(p) == ids.get(ent)}
            # symlink entries reported with -S: the fault is on the link path
            extra_files = got_files - base_files
            if extra_files and mode:   # with --rf-over 0 nothing new can appear
                ctx.violation({"kind": "new_paths_under_fault"}, "paths appear only under the fault: %r" % sorted(extra_files)[:3], payload, found_input=True)
            # expected: fault-free classes minus the files that disappeared, re-filtered
            gone = {p for p in cls_of if p not in got_files and p in base_files}
            not_allowed = gone - under
            if not mode:
                # default filter: a class may legitimately vanish when its replica count drops to 1
                exp = expected_groups(all_groups, ids, cls_of, set(cls_of) - under if False else None, got_files, under)
                not_allowed = {p for p in not_allowed if p in exp["must_be_present"]}
            if not_allowed:
                # the former K5 class (repaired in rehash: the run of an inode now tries its members in turn; a plain violation
                # since then): the other links (hard links, or -S symlinks: same file id) of the failing representative are
                # dropped with it; with the default filter their class may then fall below the threshold as a consequence
                k5_rest = not_allowed - sib_links
                if not mode and sib_links:
                    exp2 = expected_groups(all_groups, ids, cls_of, None, got_files, under | sib_links)
                    k5_rest = {p for p in k5_rest if p in exp2["must_be_present"]}
                if call != "fiemap" and sib_links and (not_allowed & sib_links or not mode) and not k5_rest:
                    sig = {"kind": "hardlink_siblings_dropped"}
                else:
                    sig = {"kind": "other_files_dropped", "call": call}
                ctx.violation(sig, "failing %s of %s also removed %s from the report" % (call, ent.decode(), sorted(p.decode() for p in not_allowed)),
                              dict(payload, dropped=sorted(p.decode() for p in not_allowed)), found_input=True)
            # every other file grouped exactly as before
            # (hashes are not compared: a class that shrinks to one file keeps a stale hash, which C15 does not constrain)
            regroup_bad = False
            for g in groups:
                k = {cls_of.get(p) for p in g["files"]}
                if len(k) != 1:
                    regroup_bad = True
            part_f = sorted(tuple(sorted(g["files"])) for g in groups)
            part_b = sorted(tuple(sorted(set(g["files"]) & got_files)) for g in base_groups)
            part_b = [x for x in part_b if x]
            if mode and part_f != part_b:
                regroup_bad = True
            if regroup_bad:
                ctx.violation({"kind": "others_grouped_differently", "call": call},
                              "files other than the faulted entry are grouped differently from the fault-free run", payload, found_input=True)
            # a file whose read failed is never reported
            # (a failed read() on the entry, or a failed open() that was not only the extent-query open: the log decides)
            failed_reads = [l for l in log if l.startswith("read ") and " fail " in l]
            failed_opens = [l for l in log if l.startswith("open ") and " fail " in l]
            # (a single failing open is retried by hasher.rs open_noatime without O_NOATIME, so only "every open fails" counts,
            #  and only if more opens than the extent-query one were attempted)
            hash_open_failed = call == "open" and nth == 0 and len(failed_opens) >= 2
            read_failed = bool(failed_reads) or hash_open_failed or (call == "stat" and nth == 0 and not is_dir)
            if not is_dir and read_failed and ent in got_files:
                ctx.violation({"kind": "unreadable_file_reported", "call": call},
                              "%s could not be read (%s failed: %s) but is listed in the report" % (
                                  ent.decode(), call, (failed_reads + failed_opens)[:2]), payload, found_input=True)
            # a warning names the entry unless it simply vanished
            if eno != 2 and call != "fiemap" and ent.decode("utf-8", "replace") not in err and gone & under:
                ctx.violation({"kind": "silent_drop", "call": call},
                              "%s of %s failed with %s and entries were left out without any warning naming it" % (call, ent.decode(), ERRNOS[eno]),
                              payload, found_input=True)
            ctx.sample({"entry": ent.decode(), "call": call, "nth": nth, "errno": ERRNOS[eno], "gone": sorted(p.decode() for p in gone)[:4]}, cap=8)

    directed_fault_scenarios(ctx, shim)
    vanished_root_scenarios(ctx)
    from . import midrun_rt
    midrun_rt.persistent_failing_transform_cache_check(ctx, ctx.pick(8, 80))

    # model-level hook (engine G): failing every read of one inode in the extracted model, which Props_C15.v is about, gives
    # the partition of the model and of the implementation on the tree without that inode
    grp_common.model_fault_check(ctx, ctx.pick(40, 400))


def directed_fault_scenarios(ctx, shim):
    """(a) MANY unreadable files in one size class (more than 8 x the hashing threads of the device): the run still finishes,
    the unreadable files are left out, the readable ones are grouped as without the fault, for every thread-pool setting;
    (b) `--transform ... $IN` with ONE file that cannot be opened (EACCES / EIO) hashed before many others: the others are all
    still reported."""
    import shutil
    for i in range(ctx.pick(3, 18)):
        rng = ctx.rng.fork()
        base = os.path.join(ctx.scratch, "many%d" % i)
        root = os.path.join(base, "r")
        shutil.rmtree(base, ignore_errors=True)
        size = rng.choice([100, 5000, 70000])
        good = treegen.content(rng.next(), size)
        nbad = rng.choice([9, 12, 20, 40])
        for k in range(6):
            p = os.path.join(root, "good", "g%d" % k)
            os.makedirs(os.path.dirname(p), exist_ok=True)
            with open(p, "wb") as f:
                f.write(good if k < 4 else treegen.content(rng.next(), size))
        for k in range(nbad):
            p = os.path.join(root, "bad", "b%02d" % k)
            os.makedirs(os.path.dirname(p), exist_ok=True)
            with open(p, "wb") as f:
                f.write(good if k % 3 == 0 else treegen.content(1000 + k // 2, size))
        transform = i % 3 != 0
        one_bad = i % 3 == 2
        threads = rng.choice([["--threads", "1"], ["--threads", "main:1", "--threads", "default:4"], [], ["--threads", "64"]])
        if one_bad:
            threads = ["--threads", "1"]     # the files hashed after the unopenable one are the interesting ones
        opts = ["--rf-over", "0"] + threads + (["--transform", "cat $IN"] if transform else [])
        bad_path = os.path.join(root, "bad", "b00") if one_bad else os.path.join(root, "bad")
        eno = rng.choice([13, 5])
        env0 = {"FCLONES_VERIF_DISK_KIND": rng.choice(["ssd", "hdd"])}
        env = dict(env0, LD_PRELOAD=shim, RDSHIM_PATH=bad_path, RDSHIM_CALL="open", RDSHIM_ERRNO=str(eno), RDSHIM_NTH="0")
        if not one_bad:
            env["RDSHIM_MATCH"] = "prefix"
        rc, out, err = treegen.fclones(["group", root, "-f", "json"] + opts, env=env, timeout=60)
        ctx.count()
        ctx.distinct(("many", i, nbad, size, tuple(opts), one_bad), True)
        ctx.bump("directed_faults", "%s%s" % ("one_unopenable+transform" if one_bad else "many_unopenable", "+transform" if transform and not one_bad else ""))
        payload = {"scenario": "%s file(s) under %s fail every open with %s" % ("one" if one_bad else nbad, bad_path, ERRNOS[eno]), "opts": opts,
                   "size": size, "stderr": err.decode("utf-8", "replace")[-600:],
                   "replay": "LD_PRELOAD=%s RDSHIM_PATH=%s %sRDSHIM_CALL=open RDSHIM_ERRNO=%d RDSHIM_NTH=0 fclones group %s %s" % (
                       shim, bad_path, "" if one_bad else "RDSHIM_MATCH=prefix ", eno, root, " ".join(opts))}
        if rc != 0:
            ctx.violation({"kind": "hang_under_faults" if rc == -9 else "run_failed_under_fault", "scenario": "directed"},
                          "fclones group %s when %s" % ("did not finish within 60 s" if rc == -9 else "exited %d" % rc, payload["scenario"]),
                          payload, found_input=True)
            continue
        _, groups = treegen.parse_json_report(out.decode("utf-8"))
        listed = {p.decode() for g in groups for p in g["files"]}
        unreadable = {bad_path} if one_bad else {os.path.join(root, "bad", "b%02d" % k) for k in range(nbad)}
        readable = {os.path.join(d, f) for d, _, fs in os.walk(root) for f in fs} - unreadable
        payload["missing"] = sorted(readable - listed)[:6]
        payload["unreadable_listed"] = sorted(unreadable & listed)[:6]
        if unreadable & listed:
            ctx.violation({"kind": "unreadable_file_reported", "scenario": "directed"}, "files that cannot be opened are listed", payload, found_input=True)
        if readable - listed:
            ctx.violation({"kind": "other_files_dropped", "scenario": "directed"},
                          "%d readable files are missing from the report (--rf-over 0 lists every readable file)" % len(readable - listed), payload, found_input=True)
        for g in groups:
            if len({open(p, "rb").read() for p in g["files"]}) > 1:
                ctx.violation({"kind": "others_grouped_differently", "scenario": "directed"}, "a group mixes different contents", payload, found_input=True)
        shutil.rmtree(base, ignore_errors=True)


def vanished_root_scenarios(ctx):
    """input paths read from --stdin of which some have VANISHED (never existed / dangling link) - first, in the middle, last, several:
    each is left out (with a warning), every other input path is scanned as if the missing one had not been listed."""
    import shutil
    for i in range(ctx.pick(6, 40)):
        rng = ctx.rng.fork()
        base = os.path.realpath(os.path.join(ctx.scratch, "vroot%d" % i))
        shutil.rmtree(base, ignore_errors=True)
        size = rng.choice([10, 5000])
        good = treegen.content(rng.next(), size)
        nroots = 2 + rng.below(3)
        files = []
        for r in range(nroots):
            for k in range(1 + rng.below(3)):
                p = os.path.join(base, "r%d" % r, "sub" if k else "", "f%d" % k)
                os.makedirs(os.path.dirname(p), exist_ok=True)
                with open(p, "wb") as f:
                    f.write(good if rng.chance(2, 3) else treegen.content(rng.next(), size))
                files.append(p)
        os.symlink(os.path.join(base, "nowhere"), os.path.join(base, "dangling"))
        roots = [os.path.join(base, "r%d" % r) for r in range(nroots)]
        gone = [os.path.join(base, n) for n in ("gone-a", "dangling", "gone-b/deeper")]
        k = i % 4
        if k == 0:
            order = [gone[0]] + roots
        elif k == 1:
            order = roots[:1] + [rng.choice(gone)] + roots[1:]
        elif k == 2:
            order = roots[:1] + gone[:2] + roots[1:-1] + [gone[2]] + roots[-1:]
        else:
            order = roots + [gone[1]]
        opts = ["--rf-over", "0"] + rng.choice([[], ["--threads", "1"], ["--threads", "main:1"]]) + rng.choice([[], ["-L"], ["-S"]])
        rc, out, err = treegen.fclones(["group", "--stdin", "-f", "json"] + opts, env={"FCLONES_VERIF_DISK_KIND": "ssd"}, cwd=base,
                                       stdin=("\n".join(order) + "\n").encode(), timeout=60)
        ctx.count()
        ctx.distinct(("vroot", i, tuple(order), tuple(opts)), True)
        ctx.bump("directed_faults", "vanished_input_path(%s)" % ["first", "middle", "several", "last"][k])
        payload = {"scenario": "input paths on --stdin, some of them missing", "stdin_paths": order, "opts": opts,
                   "stderr": err.decode("utf-8", "replace")[-600:],
                   "replay": "cd %s && printf '%%s\\n' %s | fclones group --stdin %s" % (base, " ".join(order), " ".join(opts))}
        if rc != 0:
            ctx.violation({"kind": "hang_under_faults" if rc == -9 else "run_failed_under_fault", "scenario": "vanished_root"},
                          "fclones group --stdin %s with a missing input path" % ("did not finish" if rc == -9 else "exited %d" % rc), payload, found_input=True)
            continue
        _, groups = treegen.parse_json_report(out.decode("utf-8"))
        listed = {p.decode() for g in groups for p in g["files"]}
        missing = sorted(set(files) - listed)
        if missing:
            payload["missing"] = missing[:6]
            ctx.violation({"kind": "other_files_dropped", "scenario": "vanished_root"},
                          "%d readable files under existing input paths are missing from the report because ANOTHER input path does not exist "
                          "(--rf-over 0 lists every readable file)" % len(missing), payload, found_input=True)
        shutil.rmtree(base, ignore_errors=True)


def expected_groups(all_groups, ids, cls_of, _unused, got_files, under):
    """For the default filter (rf 1): which fault-free files MUST still be present = members of classes that keep > 1
    replica (distinct inodes) after removing everything the fault may legitimately remove."""
    must = set()
    for g in all_groups:
        rest = [p for p in g["files"] if p not in under]
        if len({ids[p] for p in rest}) > 1:
            must |= set(rest)
    return {"must_be_present": must}
