"""C20 — files locked by another process are left alone (engine A).

Proof obligations: coq/Props_C20.v.
Correspondence: a helper process (python fcntl.lockf, exclusive, whole file) holds write locks on a chosen
subset of a group's members while the real binary runs each of the five operations under the shim, with and
without --no-lock; every subset of the droppable members for groups of 2..4 files (plus the retained file,
plus hard-linked victims: fcntl locks are per inode).  Each run is compared with the extracted model whose
lock table marks the same inodes (trace incl. the fcntl calls and their EAGAIN results, final tree,
`Processed N`, warnings), and a model-free oracle checks that locked files are untouched and reported while
all the others are processed.  API level: fclones::verif_api::dedupe::verif::maybe_lock (harness fsx lock).
"""
import json
import os
import subprocess
import sys
from concurrent.futures import ThreadPoolExecutor

from .. import core
from . import a_common as A
from . import c05

FSX = os.path.join(core.BIN, "fsx")
RANGES = ["whole", "first_byte", "middle", "at_eof_1", "from_eof", "sentinel_1g"]
LOCKER = r"""
import fcntl, os, sys
fs = []
for spec in sys.argv[1:]:
    api, kind, rng, p = spec.split(":", 3)
    f = open(p, "r+b" if kind == "w" else "rb")
    n = os.fstat(f.fileno()).st_size
    start, length = {"whole": (0, 0), "first_byte": (0, 1), "middle": (n // 2, 1), "at_eof_1": (n, 1),
                     "from_eof": (n, 0), "sentinel_1g": (1 << 30, 1)}[rng]
    if api == "ofd":
        # open-file-description lock (F_OFD_SETLK = 37): owned by the open file, F_GETLK reports l_pid = -1 for it
        import struct
        fl = struct.pack("hhqqixxxx", fcntl.F_WRLCK if kind == "w" else fcntl.F_RDLCK, 0, start, length, 0)
        fcntl.fcntl(f.fileno(), getattr(fcntl, "F_OFD_SETLK", 37), fl)
    else:
        fcntl.lockf(f, (fcntl.LOCK_EX if kind == "w" else fcntl.LOCK_SH) | fcntl.LOCK_NB, length, start, 0)
    fs.append(f)
sys.stdout.write("ready\n"); sys.stdout.flush()
sys.stdin.read()
"""


class Locker:
    """a separate process holding fcntl locks: specs are (path, 'w'|'r', range name[, 'posix'|'ofd'])"""

    def __init__(self, specs):
        self.p = None
        specs = [(x, "w", "whole") if isinstance(x, str) else x for x in specs]
        specs = [x if len(x) == 4 else tuple(x) + ("posix",) for x in specs]
        if specs:
            self.p = subprocess.Popen([sys.executable, "-c", LOCKER] + ["%s:%s:%s:%s" % (api, k, r, p) for p, k, r, api in specs],
                                      stdin=subprocess.PIPE, stdout=subprocess.PIPE)
            line = self.p.stdout.readline()
            if line.strip() != b"ready":
                raise RuntimeError("lock helper failed")

    def close(self):
        if self.p:
            try:
                self.p.stdin.close()
                self.p.wait(timeout=10)
            except Exception:
                self.p.kill()


def gen_scenario(rng, sid, base, n, hardlinked_victims):
    content = bytes([97 + rng.below(26) for _ in range(4 + rng.below(20))])
    if hardlinked_victims and n >= 3:
        ls = [0] + [1, 1] + list(range(2, n - 1))
    else:
        ls = list(range(n))
    members = [("a/k0", ls[0])] + [("b/v%d" % i, ls[i]) for i in range(1, n)]
    return A.Scenario(sid, base, [{"content": content, "members": members}], move_dir="out")


def run_locked(env, scn, op, locked_rel, no_lock, groups, kind="w", rng="whole", readonly=(), drop_caps=False, api="posix", spec=None):
    """one run of the binary while the helper holds locks (read / write, on the named byte range) on the members
    named in locked_rel; members in `readonly` get mode 0444 and the binary is launched without CAP_DAC_OVERRIDE"""
    scn.build()
    for r_ in readonly:
        os.chmod(os.path.join(scn.root, r_), 0o444)
    inv0 = A.inventory(scn.base)
    cmds = c05.scn_cmds(scn, op, groups, inv0)        # fake_mount => Move { use_rename: false }
    paths = [os.path.join(scn.root, r) for r in locked_rel]
    spec = spec or {}
    lk = Locker([(p, kind, rng, api) for p in paths])
    try:
        r = A.run_shim(env["fclones"], env["shim"], A.cli_args(op, scn, no_lock), scn.report, scn.base, sim_ficlone=(op == "dedupe"),
                       drop_caps=drop_caps, env_extra=scn.env_extra(), fail=spec.get("fail"), kill=spec.get("kill"))
    finally:
        lk.close()
    c = c05.Case()
    c.scn, c.op, c.spec, c.inv0, c.cmds, c.res, c.sim, c.sl = scn, op, spec, inv0, cmds, r, op == "dedupe", not no_lock
    c.inv1 = A.inventory(scn.base)
    vs = c05.victims_of(cmds)
    c.calls, c.kill = A.abstract_trace(r["trace"], vs)
    oracle = A.oracle_from_calls(c.calls)
    c.nfaults = 0
    c.extra = {}
    qs = set(inv0) | {A.canon_temp(p, vs) for p in c.inv1}
    for cm in cmds:
        if "tmp" in cm:
            qs.add(cm["tmp"])
        if "tgt" in cm:
            qs.add(os.path.normpath(cm["tgt"]))
    c.queries = sorted(qs)
    locked_inos = [inv0[p][1] for p in paths]
    crash = None
    if c.kill:
        crash = "%d:%s" % (c.kill["idx"], c.kill["stage"])
        if c.kill.get("env_fail"):
            oracle[c.kill["idx"]] = (c.kill["env_fail"], None)
    c.line = A.model_line(c.sl, inv0, cmds, oracle, crash, c.queries, locked_inos)
    c.extra = {"locked": list(locked_rel), "locked_paths": paths, "locked_inos": set(locked_inos), "no_lock": no_lock,
               "lock_kind": kind, "lock_range": rng, "readonly": list(readonly), "drop_caps": drop_caps, "lock_api": api}
    return c


def flock_args_ok(c):
    """the struct flock fclones passes to fcntl(F_SETLK): a WRITE lock on the WHOLE file (l_whence = SEEK_SET, l_start = 0,
    l_len = 0 = up to whatever the file grows to).  This is what makes "any foreign lock on any range conflicts" (the
    model's per-inode lock table) a faithful description."""
    bad = []
    for x in c.calls:
        fl = x.get("flock")
        if fl is None:
            continue
        want_type = "1" if x["kind"] == "lock" else "2"          # F_WRLCK = 1, F_UNLCK = 2
        if (fl.get("type"), fl.get("whence"), fl.get("start"), fl.get("len")) != (want_type, "0", "0", "0"):
            bad.append("%s: fcntl(F_SETLK) called with l_type=%s l_whence=%s l_start=%s l_len=%s (expected %s, 0, 0, 0)"
                       % (x["text"], fl.get("type"), fl.get("whence"), fl.get("start"), fl.get("len"), want_type))
    return bad


def lock_oracle(c):
    bad = []
    inv0, inv1 = c.inv0, {A.canon_temp(p, c05.victims_of(c.cmds)): e for p, e in c.inv1.items()}
    summ = A.log_summary(c.res["stderr"])
    refused = 0
    killed = c.spec.get("kill") is not None
    if killed or c.spec.get("fail"):
        # crash / fault sweep on a locked victim: in EVERY state the locked file is at its path, same inode, same bytes
        for cm in c.cmds:
            a = cm["a"]
            if inv0[a][1] in c.extra["locked_inos"] and not c.extra["no_lock"] and inv1.get(a) != inv0[a]:
                bad.append(("locked_file_touched", "%s is locked by another process and %s it is not at its path unchanged: %r -> %r (now at: %s)"
                            % (a, "after the process was killed at call %d" % c.spec["kill"][0] if killed else "after call %d failed (%s)" % c.spec["fail"],
                               inv0[a], inv1.get(a), [p for p, e in inv1.items() if e[0] == "F" and e[1] == inv0[a][1]])))
        if killed or c.spec.get("only_locked"):
            return bad
    for cm in c.cmds:
        a = cm["a"]
        is_locked = inv0[a][1] in c.extra["locked_inos"]
        unwritable = c.extra.get("drop_caps") and os.path.relpath(a, c.scn.root) in c.extra.get("readonly", ())

        def is_done():
            if c.op in ("remove", "move"):
                return a not in inv1
            if c.op == "softlink":
                return inv1.get(a, ("-",))[0] == "L"
            if c.op == "link":
                return inv1.get(a, ("-",))[0] == "F" and inv1[a][1] == inv0[cm["t"]][1]
            return inv1.get(a, ("-",))[0] == "F" and inv1[a][3] == inv0[a][3] and summ["processed"] is not None and \
                not any(A.pct(a) in l or a in l for l in summ["warn_lines"])
        if unwritable and (c.extra["no_lock"] or not is_locked):
            # a file the user may not open for writing and that nobody has locked (or --no-lock): whether the operation
            # succeeds depends on its own permission needs; C20 demands nothing, only the count must be consistent
            if not is_done():
                refused += 1
            continue
        if is_locked and not c.extra["no_lock"]:
            refused += 1
            if inv1.get(a) != inv0[a] and not c.spec.get("fail"):
                bad.append(("locked_file_touched", "%s is locked by another process (%s %s lock, range %s) and was changed by `%s`: %r -> %r"
                            % (a, c.extra.get("lock_api", "posix"), "write" if c.extra["lock_kind"] == "w" else "read", c.extra["lock_range"], c.op,
                               inv0[a], inv1.get(a))))
            if not any(A.pct(a) in l or a in l for l in summ["warn_lines"]):
                bad.append(("locked_file_not_reported", "no warning names the locked file %s" % a))
        else:
            # processed normally
            if c.op in ("remove", "move"):
                done = a not in inv1
            elif c.op == "softlink":
                done = inv1.get(a, ("-",))[0] == "L"
            elif c.op == "link":
                done = inv1.get(a, ("-",))[0] == "F" and inv1[a][1] == inv0[cm["t"]][1]
            else:
                done = inv1.get(a, ("-",))[0] == "F" and inv1[a][3] == inv0[a][3]
            if not done:
                bad.append(("unlocked_file_not_processed", "%s is not locked (or --no-lock) but was not processed by `%s`: %r" % (a, c.op, inv1.get(a))))
    if summ["processed"] != len(c.cmds) - refused:
        bad.append(("locked_miscounted", "Processed %s files; %d commands, %d on locked files" % (summ["processed"], len(c.cmds), refused)))
    if c.res["exit"] != 0:
        bad.append(("exit_status", "exit status %d" % c.res["exit"]))
    return bad


def api_level(ctx, env, caps_ok):
    """maybe_lock(path, lock) through the verif hook: locked / unlocked / through a symlink / missing files; every foreign
    range x read|write on a non-empty and on an EMPTY file; an unwritable (0444) file with the DAC capabilities dropped"""
    d = os.path.join(ctx.scratch, "api")
    os.makedirs(d, exist_ok=True)
    files = []
    for i in range(4):
        p = os.path.join(d, "f%d" % i)
        open(p, "wb").write(b"x" * (i + 1))
        files.append(p)
    os.symlink(files[0], os.path.join(d, "l0"))          # lock through a symlink: same inode
    probe = files + [os.path.join(d, "l0"), os.path.join(d, "missing")]
    lk = Locker([files[0], files[2]])
    try:
        on = core.run_lines(FSX, [A.pct(p) for p in probe], args=["lock", "1"])
        off = core.run_lines(FSX, [A.pct(p) for p in probe], args=["lock", "0"])
    finally:
        lk.close()
    after = core.run_lines(FSX, [A.pct(p) for p in probe], args=["lock", "1"])
    want_on = ["err WouldBlock", "ok 1", "err WouldBlock", "ok 1", "err WouldBlock", "err NotFound"]
    want_off = ["ok 0"] * 6
    want_after = ["ok 1", "ok 1", "ok 1", "ok 1", "ok 1", "err NotFound"]
    checks = [(name, p, g, w) for name, got, want in (("lock=true while held", on, want_on), ("lock=false while held", off, want_off),
                                                       ("lock=true after release", after, want_after))
              for p, g, w in zip(probe, got, want)]
    # foreign lock ranges
    full = os.path.join(d, "full")
    empty = os.path.join(d, "empty")
    open(full, "wb").write(b"0123456789")
    open(empty, "wb").close()
    for path, label in ((full, "10-byte file"), (empty, "empty file")):
      for api in ("posix", "ofd"):
        for kind in ("w", "r"):
            for rng in RANGES:
                lk = Locker([(path, kind, rng, api)])
                try:
                    got = core.run_lines(FSX, [A.pct(path)], args=["lock", "1"])[0]
                finally:
                    lk.close()
                ctx.bump("api_foreign_lock_range", "%s/%s/%s/%s" % (label, api, "write" if kind == "w" else "read", rng))
                checks.append(("foreign %s %s lock on range %s of the %s" % (api, "write" if kind == "w" else "read", rng, label), path, got, "err WouldBlock"))
    # a file the user may not open for writing: the probe itself fails, the command must not proceed
    if caps_ok:
        ro = os.path.join(d, "readonly")
        open(ro, "wb").write(b"ro")
        os.chmod(ro, 0o444)
        for held in (False, True):
            lk = Locker([(ro, "w", "whole")] if held else [])
            try:
                p = subprocess.run([FSX, "lock", "1"], input=(A.pct(ro) + "\n").encode(), stdout=subprocess.PIPE, stderr=subprocess.PIPE,
                                   preexec_fn=A.drop_dac_caps, timeout=30)
                got = p.stdout.decode().strip()
            finally:
                lk.close()
            checks.append(("0444 file, CAP_DAC_OVERRIDE dropped, foreign lock %s" % ("held" if held else "absent"), ro, got, "err PermissionDenied"))
    for name, p, g, w in checks:
        ctx.count()
        ctx.bump("api_maybe_lock", (name if not name.startswith("foreign") else "foreign lock on a byte range") + ": " + w)
        ctx.distinct(("api", name, p), True)
        if g != w:
            ctx.violation({"kind": "maybe_lock_api", "case": name.split(" of the ")[0]}, "maybe_lock(%s) with %s returned %r, expected %r" % (p, name, g, w),
                          {"path": p, "case": name, "got": g, "want": w, "replay_cmd": "%s lock 1   (stdin: the path; helper: vlib/props/c20.py LOCKER)" % FSX},
                          found_input=True)


def run(ctx):
    ctx.rule = ("foreign lock = fcntl lock held by a separate process: write (exclusive) on the whole file for the subset sweep; for n = 2 "
                "additionally every byte range {whole, first byte, a middle byte, [EOF,EOF+1), [EOF,inf), a sentinel byte at 1 GiB} x {write, "
                "read} on each operation, and a victim with mode 0444 while the binary runs without CAP_DAC_OVERRIDE/CAP_DAC_READ_SEARCH "
                "(locked / unlocked, with / without --no-lock); the struct flock of every fcntl(F_SETLK) call of fclones is logged by the shim "
                "and must be (F_WRLCK, SEEK_SET, 0, 0); API level: the same ranges on a 10-byte and on an EMPTY file. "
                "one group of n = 2..4 identical files (first retained, n-1 victims; one variant with two victims hard-linked); a helper "
                "process holds fcntl write locks on every subset of the victims (and, separately, on the retained file) while the real "
                "binary runs remove / link / link --soft / dedupe (FICLONE simulated by the shim) / move (same mount: rename) / move to a DIR on "
                "another mount point (use_rename = false: copy + remove), with and without --no-lock; "
                "a case = one run; non-trivial = at least one member locked")
    ctx.assumptions = ["advisory fcntl locks as implemented by the kernel (per inode, per process, conflict => EAGAIN/EACCES)",
                       "the lock is a check-then-act probe: `let _ = maybe_lock(..)?` releases it before the operation (stated, not a finding); "
                       "a lock acquired by the other process after the probe is not seen",
                       "errors of kind Unsupported from the open/fcntl are swallowed by maybe_lock (C20_locked_untouched excludes oracles injecting them)",
                       "dedupe: this sandbox's file system rejects FICLONE; the runs use the shim's simulated clone (labelled)"]
    ctx.trusted.append("C20: the python lock helper (fcntl.lockf in a separate process); shim/fsshim.c and the trace abstraction (see C05)")
    ctx.use_coq()
    model = core.build_model("A")
    core.build_harness(["fsx"])
    env = {"fclones": core.build_fclones(), "shim": core.build_shim()}
    caps_ok = A.caps_can_be_dropped(ctx.scratch)
    ctx.extra["cap_dac_override_dropped_for_readonly_scenarios"] = caps_ok
    api_level(ctx, env, caps_ok)

    if ctx.replay:
        rp = json.load(open(ctx.replay))
        plan = [(rp["n"], rp["hardlinked_victims"], rp["op"])]
    else:
        # "move_copy" = `move DIR` with DIR registered as ANOTHER MOUNT POINT (hook FCLONES_VERIF_MOUNTS): dedupe_script emits
        # Move { use_rename: false }, execute goes straight to move_copy — the lock probe must precede that path too
        ops = A.OPS + ["move_copy"]
        plan = [(n, False, op) for n in (2, 3, 4) for op in ops] + [(3, True, op) for op in ops]
        plan += [(14 + k, False, op) for k, op in enumerate(["remove", "link", "move"])]
        if not ctx.quick:
            plan += [(4, True, op) for op in ops]

    def do(job):
        idx, (n, hl, op) = job
        scn = gen_scenario(core.SplitMix64(1000 + idx), "l%d" % idx, ctx.scratch, n, hl)
        scn.fake_mount = (op == "move_copy")
        op = "move" if op == "move_copy" else op
        os.makedirs(scn.base, exist_ok=True)
        groups = scn.make_report(env["fclones"])
        victims = ["b/v%d" % i for i in range(1, n)]
        subsets = []
        if n > 6:
            # MANY locked victims in one run (more failures than any "log only the first N" budget): each one is refused AND named
            subsets = [victims[:-1], victims[1:], victims]
        else:
            for mask in range(1 << len(victims)):
                subsets.append([v for i, v in enumerate(victims) if mask >> i & 1])
            subsets.append(["a/k0"])                       # the retained file is never probed
        if ctx.replay:
            rp = json.load(open(ctx.replay))
            spec = {k: (tuple(v) if isinstance(v, list) else v) for k, v in (rp.get("fault") or {}).items()}
            return [run_locked(env, scn, op, rp["locked"], rp["no_lock"], groups, kind=rp.get("lock_kind", "w"), rng=rp.get("lock_range", "whole"),
                               readonly=rp.get("readonly", ()), drop_caps=rp.get("drop_caps", False), api=rp.get("lock_api", "posix"), spec=spec)]
        out = []
        for sub in subsets:
            for no_lock in ((False, True) if n <= 6 else (False,)):
                out.append(run_locked(env, scn, op, sub, no_lock, groups))
        if n == 2 and not hl:
            # the foreign lock's byte range and mode: fclones locks the WHOLE file, so every one of them must conflict
            for kind in ("w", "r"):
                for rng in RANGES:
                    if (kind, rng) != ("w", "whole"):
                        out.append(run_locked(env, scn, op, ["b/v1"], False, groups, kind=kind, rng=rng))
            # the same through OPEN-FILE-DESCRIPTION locks (F_OFD_SETLK): they conflict with fclones' F_SETLK exactly like classic ones
            for kind in ("w", "r"):
                for rng in ("whole", "at_eof_1", "sentinel_1g"):
                    out.append(run_locked(env, scn, op, ["b/v1"], False, groups, kind=kind, rng=rng, api="ofd"))
            # crash / fault sweep with the victim locked: a failure injected into, or a SIGKILL before / after, EVERY call of the run.
            # EOPNOTSUPP is left out: maybe_lock deliberately swallows Unsupported from the probe (the excluded oracle class of
            # C20_locked_untouched)
            c0 = run_locked(env, scn, op, ["b/v1"], False, groups)
            m = max([int(f[0]) for f in c0.res["trace"]] or [0])
            for k in range(1, m + 1):
                for e in ("EIO", "ENOSPC", "EXDEV", "EPERM"):
                    out.append(run_locked(env, scn, op, ["b/v1"], False, groups, spec={"fail": (k, e)}))
                for when in ("before", "after"):
                    out.append(run_locked(env, scn, op, ["b/v1"], False, groups, spec={"kill": (k, when)}))
            # a victim the user may not open for writing (0444, DAC capabilities dropped): the probe fails, the file is left alone
            if caps_ok:
                for locked in ([], ["b/v1"]):
                    for no_lock in (False, True):
                        out.append(run_locked(env, scn, op, locked, no_lock, groups, kind="w", readonly=["b/v1"], drop_caps=True))
        if 3 <= n <= 6 and not hl:
            # "locking is not supported" (EOPNOTSUPP = ENOTSUP) reported for an EARLIER victim only (a file system without
            # advisory locks next to a normal one): that victim is processed without a lock (maybe_lock swallows Unsupported),
            # the LAST victim, locked by another process, must still be left alone - every call that names the earlier victim
            last = victims[-1]
            c0 = run_locked(env, scn, op, [last], False, groups)
            early = A.pct(os.path.join(scn.root, victims[0]))
            for x in c0.calls:
                if early in x["text"] and A.pct(os.path.join(scn.root, last)) not in x["text"] and x["ks"]:
                    out.append(run_locked(env, scn, op, [last], False, groups, spec={"fail": (x["ks"][0], "EOPNOTSUPP"), "only_locked": True}))
        return out

    with ThreadPoolExecutor(max_workers=core.NCPU) as ex:
        res = list(ex.map(do, list(enumerate(plan))))
    cases = [(c, plan[i]) for i, r in enumerate(res) for c in r]
    outs = core.run_lines_parallel(model, [c.line for c, _ in cases])
    corr = []
    flock_bad = []
    for (c, (n, hl, op)), o in zip(cases, outs):
        ctx.count()
        nl = len(c.extra["locked"])
        ctx.distinct((n, hl, op, tuple(c.extra["locked"]), c.extra["no_lock"]), nl > 0)
        ctx.bump("operation", op)
        ctx.bump("group_size", n)
        ctx.bump("locked_members", "retained" if c.extra["locked"] == ["a/k0"] else nl)
        ctx.bump("no_lock_flag", c.extra["no_lock"])
        ctx.bump("hardlinked_victims", hl)
        if nl:
            ctx.bump("foreign_lock", "%s/%s/%s" % (c.extra["lock_api"], "write" if c.extra["lock_kind"] == "w" else "read", c.extra["lock_range"]))
        if c.spec:
            ctx.bump("sweep_with_locked_victim", "kill_" + c.spec["kill"][1] if "kill" in c.spec else
                     ("lock_unsupported_for_an_earlier_victim" if c.spec.get("only_locked") else "fail_" + c.spec["fail"][1]))
        if c.extra["readonly"]:
            ctx.bump("victim_mode_0444_without_CAP_DAC_OVERRIDE", "locked" if nl else "unlocked")

        def payload(c=c, n=n, hl=hl, op=op):
            d = c05.describe(c)
            d.update({"n": n, "hardlinked_victims": hl, "op": op, "locked": c.extra["locked"], "no_lock": c.extra["no_lock"],
                      "lock_kind": c.extra["lock_kind"], "lock_range": c.extra["lock_range"], "readonly": c.extra["readonly"],
                      "drop_caps": c.extra["drop_caps"], "lock_api": c.extra["lock_api"], "fault": c.spec,
                      "lock_helper": "python3 -c <fcntl.lockf(LOCK_EX|LOCK_NB) on the listed members> (vlib/props/c20.py LOCKER)"})
            return d
        for kind, text in lock_oracle(c):
            ctx.violation({"kind": kind, "op": op}, "C20 violated by the implementation: " + text, payload(), found_input=True)
        for text in flock_args_ok(c):
            flock_bad.append((c, text, payload))
        try:
            mo = A.parse_model_out(o)
        except Exception as e:
            corr.append((c, "model", str(e), payload))
            continue
        d = A.compare_trace(c.calls, mo["trace"], c.kill is not None)
        if d:
            corr.append((c, "trace", d, payload))
            continue
        known_mt = {e[2] for e in c.inv0.values() if e[0] == "F"}
        ds = A.compare_state(c.inv1, c.queries, mo["state"], c05.victims_of(c.cmds), known_mt)
        if ds:
            corr.append((c, "state", "; ".join(ds[:4]), payload))
            continue
        summ = A.log_summary(c.res["stderr"])
        if c.kill is None and (summ["processed"] != mo["processed"] or summ["warn"] != mo["warn"]):
            corr.append((c, "accounting", "implementation processed=%s warnings=%d; model processed=%d warnings=%d"
                         % (summ["processed"], summ["warn"], mo["processed"], mo["warn"]), payload))
            continue
        if len(ctx.samples) < 6 and nl > 0:
            ctx.sample({"op": op, "locked": c.extra["locked"], "no_lock": c.extra["no_lock"], "model_results": mo["results"],
                        "lock_calls": [x["text"].split("/")[-1] + "=" + x["res"] for x in c.calls if x["kind"] == "lock"]})
    ctx.extra["exhaustive"] = False
    ctx.extra["exhaustive_within_bound"] = "every subset of the victims for group sizes 2..4, all five operations, both lock flags"
    ctx.extra["runs_of_the_real_binary"] = len(cases)
    if os.environ.get("VERIF_DEBUG"):
        for c, what, d, _ in corr[:int(os.environ["VERIF_DEBUG"])]:
            core.log("DISAGREE %s locked=%s no_lock=%s %s: %s" % (c.op, c.extra["locked"], c.extra["no_lock"], what, d))
    if flock_bad and not any(v[3] for v in ctx.violations):
        c, text, payload = flock_bad[0]
        rp = payload()
        rp["correspondence"] = "struct flock passed to fcntl(F_SETLK) as logged by the shim vs the whole-file write lock the model's LockW stands for"
        ctx.violation({"kind": "lock_not_whole_file", "op": c.op}, "fclones does not request a whole-file write lock (%d calls), first: %s; no foreign lock "
                      "range explored was missed" % (len(flock_bad), text), rp, found_input=False)
    if corr:
        c, what, d, payload = corr[0]
        rp = payload()
        rp.update({"correspondence": "%s comparison between the fclones binary (helper holding locks) and the extracted model" % what,
                   "disagreement": d, "disagreeing_runs": len(corr)})
        if not any(v[3] for v in ctx.violations):
            ctx.violation({"kind": what + "_mismatch", "op": c.op}, "model and implementation disagree (%s) on %d runs, first: %s locked=%s no_lock=%s: %s; "
                          "the model-free oracle found no violation of C20" % (what, len(corr), c.op, c.extra["locked"], c.extra["no_lock"], d), rp, found_input=False)
        else:
            core.log("model/implementation disagreement on %d runs (first: %s)" % (len(corr), d))
