"""C19 — the task/open-file semaphore is safe and live under all interleavings (engine S).

Proof obligations: coq/Props_C19.v (unbounded threads / steps).
Correspondence: the CURRENT semaphore.rs compiled against instrumented Mutex/Condvar and driven by
a deterministic scheduler (harness/src/bin/sem.rs); every implementation trace must be a path of
the Coq model (extracted validator, coq/driver/drv_S.ml) with equal counter values, and the
implementation-level monitors (holders <= permits, no sleeper while the counter is positive in a
stuck state, counter restored when everything is released) must hold on every schedule.
"""
import json
import os
import subprocess
from concurrent.futures import ThreadPoolExecutor

from .. import core

SEM = os.path.join(core.BIN, "sem")


def gen_scripts(rng, nthreads, pairs_per_thread):
    """Each thread performs `pairs` acquire/release pairs; a release happens on the acquiring thread
    (owned or borrowed guard) or the guard is handed to another thread which releases it."""
    ops = [[] for _ in range(nthreads)]
    extra = [[] for _ in range(nthreads)]
    for t in range(nthreads):
        for _ in range(pairs_per_thread):
            k = rng.below(4)
            if k == 0:
                ops[t] += ["b", "r"]
            elif k == 1 and nthreads > 1:
                u = (t + 1 + rng.below(nthreads - 1)) % nthreads
                ops[t] += ["a", "s%d" % u]
                extra[u].append("r")
            elif k == 2:
                ops[t] += ["a"]
                extra[t].append("r")          # released later, possibly after other acquires
            else:
                ops[t] += ["a", "r"]
    out = []
    for t in range(nthreads):
        seq = list(ops[t])
        for r in extra[t]:
            # a release of a received / kept guard goes anywhere that does not split "b r" or "a s"
            cands = [i for i in range(len(seq) + 1)
                     if not (i > 0 and i < len(seq) and seq[i - 1] in ("a", "b") and (seq[i] == "r" or seq[i].startswith("s")))]
            seq.insert(rng.choice(cands), r)
        out.append("".join(seq) or "-")
    return "/".join(out)


def run_sem(args, timeout=3600):
    p = core.run([SEM] + [str(a) for a in args], timeout=timeout)
    if p.returncode != 0:
        raise RuntimeError("sem harness failed: " + p.stderr[-2000:])
    return [l for l in p.stdout.split("\n") if l]


def parse_line(line):
    parts = [x.strip() for x in line.split("|")]
    head = parts[0].split()
    kv = dict(x.split("=") for x in parts[1].split())
    return {"permits": int(head[0]), "n": int(head[1]), "events": head[2:], "model_in": parts[0],
            "end": kv["end"], "ctr": int(kv["ctr"]), "hmax": int(kv["hmax"]), "owned": int(kv["owned"]),
            "sleepers": int(kv["sleepers"]), "choices": parts[2], "nopts": parts[3] if len(parts) > 3 else ""}


def monitors(r):
    bad = []
    if r["permits"] >= 0 and r["hmax"] > r["permits"]:
        bad.append(("over_admitted", "%d simultaneous holders with %d permits" % (r["hmax"], r["permits"])))
    if r["end"] == "stuck" and r["sleepers"] > 0 and r["ctr"] > 0:
        bad.append(("lost_wakeup", "all live threads blocked, %d asleep, while the counter is %d" % (r["sleepers"], r["ctr"])))
    elif r["end"] == "stuck" and r["sleepers"] > 0 and r["permits"] >= 0 and r["owned"] < r["permits"]:
        # whatever the counter's encoding: fewer guards are alive than there are permits, yet every live thread sleeps
        bad.append(("lost_wakeup", "all live threads blocked, %d asleep, while only %d of %d permits are held (counter %s)" % (
            r["sleepers"], r["owned"], r["permits"], "unknown" if r["ctr"] == -(1 << 63) else r["ctr"])))
    # (counter unknown = the protected state is no longer a plain integer: only the counter-independent monitors apply)
    if r["end"] == "done" and r["owned"] == 0 and r["ctr"] != r["permits"] and r["ctr"] != -(1 << 63):
        bad.append(("not_restored", "all guards dropped but counter=%d, permits=%d" % (r["ctr"], r["permits"])))
    return bad


def examine(ctx, job, lines, model):
    """job = (mode, permits, spurious, script)."""
    mode, permits, spurious, script = job
    runs = [parse_line(l) for l in lines if not l.startswith("#")]
    meta = [l for l in lines if l.startswith("#")]
    if not runs:
        return meta
    verdicts = core.run_lines(model, [r["model_in"] for r in runs])
    for r, v in zip(runs, verdicts):
        ctx.count()
        ev = r["events"]
        nontrivial = any(e.startswith("W") for e in ev) or any(e.startswith("N") and not e.endswith("-") for e in ev)
        ctx.distinct((script, permits, " ".join(ev)), nontrivial)
        ctx.bump("threads", r["n"])
        ctx.bump("permits", permits)
        ctx.bump("end", r["end"])
        ctx.bump("waits_in_trace", min(sum(1 for e in ev if e.startswith("W")), 5))
        ctx.bump("spurious_in_trace", sum(1 for e in ev if e.startswith("S")))
        replay = {"script": script, "permits": permits, "spurious": spurious, "choices": r["choices"],
                  "trace": " ".join(ev), "impl": {k: r[k] for k in ("end", "ctr", "hmax", "owned", "sleepers")},
                  "replay_cmd": "%s replay %d %d %s %s" % (SEM, permits, spurious, script, r["choices"])}
        for kind, what in monitors(r):
            ctx.violation({"kind": kind}, "semaphore.rs under schedule %s of script %s: %s" % (r["choices"], script, what),
                          replay, found_input=True)
        f = v.split()
        if f[0] != "ok":
            ctx.pending_corr.append((replay, v))
        else:
            mcount, mlost, mover = int(f[1]), f[5], f[6]
            if mcount != r["ctr"] or mlost != "0" or mover != "0":
                ctx.pending_corr.append((replay, v))
        ctx.sample({"script": script, "permits": permits, "trace": " ".join(ev), "model": v, "end": r["end"]})
    return meta


def run(ctx):
    ctx.rule = ("schedules of the real semaphore.rs under the deterministic scheduler: DFS (exhaustive where stated) over "
                "2-thread scripts x permits 0..2 x spurious budget 0..1, plus PRNG schedules of 3-4 thread scripts with 1-3 "
                "acquire/release pairs each (release on the acquiring or on another thread); a case is one event trace; "
                "non-trivial = some thread waited on the condvar or was woken by notify_one; distinct = distinct (script, permits, trace)")
    ctx.assumptions = ["std::sync::Mutex/Condvar semantics as instrumented (mutual exclusion, wait atomically releases the mutex, "
                       "notify_one wakes at most one waiter, spurious wake-ups allowed); memory-model effects below the mutex are trusted"]
    ctx.trusted.append("C19: harness/build.rs textual substitution of the std::sync import of the current semaphore.rs; "
                       "deterministic scheduler in harness/src/bin/sem.rs; event->label mapping labels_of (SemModel.v) proved sound by C19_validated_traces_are_model_paths")
    ctx.pending_corr = []
    ctx.use_coq()
    model = core.build_model("S")
    core.build_harness(["sem"])

    if ctx.replay:
        rp = json.load(open(ctx.replay))
        lines = run_sem(["replay", rp["permits"], rp["spurious"], rp["script"], rp["choices"]])
        examine(ctx, ("replay", rp["permits"], rp["spurious"], rp["script"]), lines, model)
    else:
        jobs = []
        cap = ctx.pick(6000, 30000)
        dfs_scripts = ["ar/ar", "br/br", "as1/r", "as1/ar", "ar/a", "a/ar", "ar/br", "r/as0"]
        # three threads, two of them waiting at once (capped DFS): multi-waiter wake-up chains
        dfs_scripts += ["aarr/ar/ar", "ar/ar/ar", "as1as1/rr/ar"]
        if not ctx.quick:
            dfs_scripts += ["arar/ar", "as1as1/rr", "aar/ar", "brbr/br", "as1/as0r/r", "as1/as2/as0", "aarr/ar/ar/ar"]
        for sc in dfs_scripts:
            for permits in (0, 1, 2):
                for sp in (0, 1):
                    jobs.append(("dfs", permits, sp, sc))
        nrand_scripts = ctx.pick(40, 600)
        per_script = ctx.pick(60, 500)
        for _ in range(nrand_scripts):
            nt = 2 + ctx.rng.below(3)
            pairs = 1 + ctx.rng.below(3)
            sc = gen_scripts(ctx.rng, nt, pairs)
            jobs.append(("rand", ctx.rng.below(3), ctx.rng.below(3), sc, ctx.rng.next() % (1 << 62)))

        exhaustive = {}

        def do(job):
            if job[0] == "dfs":
                _, permits, sp, sc = job
                return job, run_sem(["dfs", permits, sp, cap, sc])
            _, permits, sp, sc, seed = job
            return job, run_sem(["rand", permits, sp, per_script, seed, sc])

        with ThreadPoolExecutor(max_workers=core.NCPU) as ex:
            results = list(ex.map(do, jobs))
        for job, lines in results:
            meta = examine(ctx, job[:4], lines, model)
            for m in meta:
                if "exhaustive=true" in m:
                    exhaustive["%s p=%d sp=%d" % (job[3], job[1], job[2])] = int(m.split("schedules=")[1].split()[0])
        ctx.extra["dfs_exhaustive_configs"] = exhaustive
        ctx.extra["exhaustive"] = False
        ctx.extra["traces_validated_against_impl"] = ctx.evaluations

    # correspondence failures: a concrete failing schedule (monitor) takes precedence as the replay
    if ctx.pending_corr:
        have_input = any(v[3] for v in ctx.violations)
        rp, verdict = ctx.pending_corr[0]
        rp = dict(rp)
        rp["model_verdict"] = verdict
        rp["correspondence"] = "trace of semaphore.rs is not a path of SemModel.fire (validator coq/driver/drv_S.ml)"
        rp["disagreeing_schedules"] = len(ctx.pending_corr)
        if not have_input:
            ctx.violation({"kind": "trace_rejected"},
                          "implementation trace rejected by the model at event %s (script %s, schedule %s); "
                          "no schedule explored violates the monitors" % (verdict.split()[1] if verdict.startswith("bad") else "?", rp["script"], rp["choices"]),
                          rp, found_input=False)
        else:
            core.log("model/implementation disagreement on %d schedules (first: %s)" % (len(ctx.pending_corr), verdict))
