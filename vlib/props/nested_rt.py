"""Directed dimension shared by C03 / C09 / C13: input paths that lie INSIDE other input paths but are NOT reached by the walk of
the outer one — a hidden directory or file given explicitly (no --hidden), a directory ignored by the outer tree's .gitignore /
.fdignore given explicitly (no --no-ignore).  An explicit input path is level 0 of its own walk: the hidden rule does not apply
to it and its ignore stack starts empty (global rules only), so its files ARE selected although the outer walk skips them.

Model-free oracle: the selection is recomputed in Python from the documented rules (hidden entries skipped below level 0 unless
--hidden; `name/` rules of the ignore files of the directories walked THROUGH on this route unless --no-ignore), the selected
files are partitioned by bytes and the classes with more than one distinct file are the expected groups; the report must be
exactly that (sets of sets), for every order of the input paths, on argv and through --stdin, for every thread setting."""
import os
import shutil

from .. import core, treegen


def _walk(root, hidden, no_ignore, selected):
    """the walk of ONE explicit input path (root: absolute path of a directory or a file)"""
    if os.path.isfile(root):
        selected.add(root)
        return

    def rec(d, ignored_names):
        ign = set(ignored_names)
        if not no_ignore:
            for nm in (".gitignore", ".fdignore"):
                p = os.path.join(d, nm)
                if os.path.isfile(p):
                    with open(p) as f:
                        ign |= {l.strip().rstrip("/") for l in f if l.strip()}
                    break                      # walk.rs: .gitignore first, .fdignore only if there is no .gitignore
        for e in sorted(os.listdir(d)):
            p = os.path.join(d, e)
            if e.startswith(".") and not hidden:
                continue
            if os.path.islink(p):
                continue
            if os.path.isdir(p):
                if e in ign:
                    continue
                rec(p, ign)
            elif os.path.isfile(p):
                selected.add(p)
    rec(root, set())


def nested_unreached_roots_check(ctx, n, prop):
    core.build_fclones()
    for i in range(n):
        rng = ctx.rng.fork()
        base = os.path.realpath(os.path.join(ctx.scratch, "nested%d" % i))
        top = os.path.join(base, "t")
        shutil.rmtree(base, ignore_errors=True)
        os.makedirs(top)
        home = os.path.join(base, "home")
        os.makedirs(home)
        size = rng.choice([1, 300, 5000])
        conts = [treegen.content(rng.next(), size) for _ in range(3)]
        ign_name = rng.choice([".gitignore", ".fdignore"])
        # a sibling input path whose name is NOT valid UTF-8 in half of the trees (a Latin-1 name: byte 0xE9)
        # ... or ends in white space (a line of --stdin is a path, byte for byte up to the line terminator)
        oname = rng.choice(["other", "oth\udce9r-latin1", "oth\udce9r-latin1", "other ", "other\t"])
        dirs = ["proj", "proj/.cache", "proj/.cache/deep", "proj/build", "proj/build/obj", "proj/sub", "proj/sub/.priv", oname]
        for d in dirs:
            os.makedirs(os.path.join(top, d))
        with open(os.path.join(top, "proj", ign_name), "w") as f:
            f.write("build/\n")
        k = 0
        files = {}
        placed_dirs = rng.shuffle(dirs) + [rng.choice(dirs) for _ in range(rng.below(6))]
        for d in placed_dirs:
            name = (".h%d" if rng.chance(1, 6) else "f%d") % k
            k += 1
            p = os.path.join(top, d, name)
            c = rng.below(3) if rng.chance(5, 6) else None
            with open(p, "wb") as f:
                f.write(conts[c] if c is not None else treegen.content(rng.next(), size + 1 + k))
            files[p] = c
        hidden_files = sorted(p for p in files if os.path.basename(p).startswith("."))
        # input paths: the outer tree, plus nested ones the outer walk does not reach
        nested = ["proj/.cache", "proj/build", "proj/.cache/deep", "proj/sub/.priv", "proj/build/obj", "proj/sub"]
        # -L (no links in the tree: same selection).  The visited set then decides what is walked twice; an entry rejected as
        # HIDDEN on one route must still be walked when it is an input path of its own.  (Entries rejected by an IGNORE file are
        # left out with -L: the visited set is route-insensitive there, known finding N1.)
        follow = rng.chance(1, 3)
        if follow:
            nested = ["proj/.cache", "proj/.cache/deep", "proj/sub/.priv", "proj/sub"]
        roots = ["proj"] + rng.shuffle(nested)[:1 + rng.below(3)]
        if hidden_files and rng.chance(1, 2):
            roots.append(os.path.relpath(rng.choice(hidden_files), top))
        if oname != "other" or rng.chance(1, 2):
            roots.append(oname)
        roots = rng.shuffle(roots)
        how = rng.below(3)
        spelled = [r if how == 0 else ("./" + r if how == 1 else os.path.join(top, r)) for r in roots]
        hidden = rng.chance(1, 5)
        no_ignore = rng.chance(1, 5)
        opts = (["--hidden"] if hidden else []) + (["--no-ignore"] if no_ignore else []) + (["-L"] if follow else [])
        opts += rng.choice([[], ["--threads", "1"], ["--threads", "8"], ["--threads", "main:1"]])
        stdin_mode = rng.chance(1, 2)
        env0 = {"FCLONES_VERIF_DISK_KIND": "ssd", "HOME": home, "XDG_CONFIG_HOME": os.path.join(home, ".config")}
        if stdin_mode:
            rc, out, err = treegen.fclones(["group", "--stdin"] + opts + ["-f", "json"], cwd=top, env=env0,
                                           stdin=("\n".join(spelled) + "\n").encode("utf-8", "surrogateescape"))
        else:
            rc, out, err = treegen.fclones(["group"] + spelled + opts + ["-f", "json"], cwd=top, env=env0)
        ctx.count()
        ctx.distinct(("nested", i, tuple(spelled), tuple(opts), stdin_mode), True)
        ctx.bump("nested_unreached_roots", "+".join(sorted(r for r in roots if r not in ("proj", oname))) or "-")
        ctx.bump("nested_unreached_non_utf8_input_path", "%s%s" % ("stdin:" if stdin_mode else "argv:", "yes" if oname != "other" and oname in roots else "no"))
        ctx.bump("nested_unreached_follow_links", int(follow))
        payload = {"scenario": "input paths inside other input paths that the outer walk does not reach (hidden / ignored)",
                   "top": top, "roots": [r.encode("utf-8", "surrogateescape").decode("utf-8", "replace") for r in spelled], "opts": opts, "stdin": stdin_mode, "ignore_file": ign_name,
                   "files": sorted(f_.encode("utf-8", "surrogateescape").decode("utf-8", "replace") for f_ in files), "stderr": err.decode("utf-8", "replace")[-400:],
                   "replay": "cd %s && fclones group %s %s" % (top, "--stdin <<< roots" if stdin_mode else " ".join(spelled).encode("utf-8", "surrogateescape").decode("utf-8", "replace"), " ".join(opts))}
        if rc != 0:
            ctx.violation({"kind": "run_failed", "dimension": "nested_unreached"}, "fclones group failed (rc %d)" % rc, payload, found_input=True)
            continue
        selected = set()
        for r in roots:
            _walk(os.path.join(top, r), hidden, no_ignore, selected)
        classes = {}
        for p in selected:
            with open(p, "rb") as f:
                classes.setdefault(f.read(), []).append(p)
        want = sorted(tuple(sorted(ps)) for ps in classes.values() if len(ps) > 1)
        _, groups = treegen.parse_json_report(out.decode("utf-8"))
        got = sorted(tuple(sorted(p.decode("utf-8", "surrogateescape") for p in g["files"])) for g in groups)
        listed = [p for g in got for p in g]
        vis = lambda x: x.encode("utf-8", "surrogateescape").decode("utf-8", "replace")
        payload["expected"], payload["reported"] = [[vis(p) for p in g] for g in want], [[vis(p) for p in g] for g in got]
        if len(listed) != len(set(listed)):
            ctx.violation({"kind": "path_listed_twice", "dimension": "nested_unreached"}, "a path is listed twice", payload, found_input=True)
        elif want != got:
            missing = sorted(set(p for g in want for p in g) - set(listed))
            extra = sorted(set(listed) - selected)
            kind = "selected_file_missing" if missing else ("unselected_file_reported" if extra else "partition_wrong")
            if prop in ("C03", "C13") and kind == "selected_file_missing":
                kind = "class_incomplete"
            ctx.violation({"kind": kind, "dimension": "nested_unreached"},
                          "explicit input paths inside other input paths: the report is not the partition of the selected files "
                          "(missing %s, not selected %s)" % ([vis(p) for p in missing[:3]], [vis(p) for p in extra[:3]]), payload, found_input=True)
        shutil.rmtree(base, ignore_errors=True)
