"""C03 — every duplicate among the scanned files is reported, exactly once (engine G).

Proof obligations: coq/Props_C03.v (partition, no split, nothing qualifying dropped at any stage, filter
monotonicity, path de-duplication) over coq/GroupModel.v.  Correspondence: as C01 (shared machinery,
generator weighted towards classes spread over roots / fake devices, repeated and nested roots,
--rf-under / --unique, hard links).  Direct oracle: independent partition of the scanned files by bytes
with the replica rule re-implemented from the property text, compared with the report as sets of sets.
"""
from . import grp_common as G
from . import mounts_rt, midrun_rt, nested_rt, links_rt


def run(ctx):
    ctx.rule = ("generated trees as for C01 with more roots (repeated, nested, a file as input path), fake mounts, hard links and "
                "under-replication filters; one case = one tree + one option set; the report of fclones::group_files is compared with the "
                "extracted model and with the partition oracle; non-trivial = some group reported or two scanned files of equal length; "
                "distinct = distinct spec")
    ctx.assumptions = list(G.COMMON_ASSUMPTIONS)
    ctx.trusted += G.COMMON_TRUSTED
    ctx.use_coq()
    if ctx.replay:
        G.run_replay(ctx, "C03")
        return
    eng, _ = G.run_generated(ctx, "C03", ctx.pick(420, 6000))
    k11 = [G.gen_k11_spec(ctx.rng.fork()) for _ in range(ctx.pick(16, 200))]
    for s in k11:
        if ctx.rng.chance(1, 2):
            s["opts"]["rf_under"] = 3
    G.process_results(ctx, eng, eng.run_specs(k11))
    # input-mode dimension (CLI layer): roots on argv vs --stdin, repeated / nested / overlapping roots, files as roots
    G.stdin_mode_check(ctx, eng, [G.gen_stdin_spec(ctx.rng.fork(), "C03") for _ in range(ctx.pick(24, 300))])

    # component-boundary twins (a/bc vs ab/c as hard links of one inode) in plain mode; the --stdin batch above has them too
    tw = []
    for _ in range(ctx.pick(12, 150)):
        x = G.gen_spec(ctx.rng.fork(), "C03", small=True)
        tw.append(G.add_boundary_twins(ctx.rng.fork(), x))
    G.process_results(ctx, eng, eng.run_specs(tw))
    trf = [G.gen_in_transform_spec(ctx.rng.fork(), failing=(i % 2 == 1)) for i in range(ctx.pick(16, 200))]
    G.process_results(ctx, eng, eng.run_specs(trf))
    # input paths inside other input paths that the outer walk does NOT reach (hidden / ignored directories and files given explicitly)
    nested_rt.nested_unreached_roots_check(ctx, ctx.pick(30, 400), "C03")
    # --follow-links over hard links and link targets in many spellings: every file (every hard link: a path of its own) exactly once
    links_rt.follow_alias_check(ctx, ctx.pick(24, 300))
    # several file systems whose files share inode numbers (fresh tmpfs instances in a private mount namespace):
    # the qualifying content classes must be reported completely
    mounts_rt.colliding_inodes_check(ctx, ctx.pick(6, 60), completeness=True)
    # the cache dimension at the CLI level: files that join / leave a content class by an in-place rewrite between cached runs
    midrun_rt.restore_older_check(ctx, ctx.pick(24, 300))
