"""Registry of claimed properties -> MANIFEST.json, and the one-time setup."""
import json
import os
import sys

from . import core

HOOK_COMMITS = ["0aef0c9", "20de43e"]
FIX_COMMITS = ["234becf", "790b4d0", "4f01341", "60bfb90", "0b426b2", "e95a0ef", "699cec2", "fc3df1b", "a483ad6",
               "121ee44", "95ae875", "df3147f", "78b42a1", "f364479", "6b53a15", "8342e2c"]

ENGINES = [
    {"name": "S", "path": "coq/SemModel.v coq/SemProofs.v harness/src/bin/sem.rs coq/driver/drv_S.ml",
     "serves_properties": ["C19"],
     "kind_free_text": "labelled transition system of semaphore.rs (unbounded threads), inductive invariants; "
                       "real semaphore.rs under a deterministic scheduler, traces validated by the extracted model"},
]

# property id -> dict(engine, text, note, technique, design_ref)
CHECKS = {
    "C19": dict(
        engine="S",
        technique="Coq proof of inductive invariants of a transition-system model (unbounded threads/steps) + trace validation of the real semaphore.rs under a deterministic scheduler against the extracted model",
        text="Rocq theorems over an executable transition system of semaphore.rs for ANY number of threads and steps and every "
             "scheduling/notify-victim/spurious-wake-up choice: permit conservation and holders<=permits (C19_safety), mutual exclusion, "
             "the wake-up invariant and its progress form (a free permit while somebody sleeps always leaves an enabled internal step), "
             "termination of internal steps under every schedule and the shape of the settled state (nobody asleep while a permit is free), "
             "restoration of the permit count.  The model is tied to the code on every run: the current semaphore.rs is compiled against "
             "instrumented Mutex/Condvar, driven through DFS/PRNG schedules, and each event trace must be a path of the model "
             "(validator extracted from the same `fire` function the theorems are about; soundness of the event mapping is itself a theorem).",
        note="Trusted: Coq kernel; extraction (ExtrOcamlBasic) and the OCaml driver; the harness scheduler and the textual swap of the "
             "std::sync import; std::sync::Mutex/Condvar semantics and everything below them (memory model, futex). Fairness of the OS "
             "scheduler is not modelled: liveness is stated as 'internal steps terminate and the settled state has no sleeper with a free permit'.",
        design_ref="DESIGN.md §5 engine S, §6 C19",
    ),
}

NOT_APPLICABLE = []   # filled below with the properties not yet claimed

ALL_PROPS = ["C%02d" % i for i in range(1, 21)]


def claimed():
    return [p for p in ALL_PROPS if p in CHECKS]


def manifest():
    checks = []
    for p in claimed():
        c = CHECKS[p]
        checks.append({
            "property_id": p,
            "quick_cmd": "./check %s --tier quick" % p,
            "thorough_cmd": "./check %s --tier thorough" % p,
            "evidence_file": "/verif/evidence/%s.json" % p,
            "replay_cmd_template": "./check %s --replay {path}" % p,
            "engine": c["engine"],
            "level_claimed": {"category": "proof", "text": c["text"], "design_ref": c["design_ref"]},
            "level_note": c["note"],
            "technique": c["technique"],
        })
    na = [{"property_id": p, "reason": NA_REASONS.get(p, "check not built yet in this round; nothing is claimed for it")}
          for p in ALL_PROPS if p not in CHECKS]
    return {
        "version": 1,
        "setup_cmd": "./check --setup",
        "hooks": {
            "guard": "--cfg " + core.GUARD,
            "enable": "RUSTFLAGS='%s' cargo build --offline (harness crate with fclones = {path=/repo/fclones}; fclones binary) into /verif/.cache/target" % core.RUSTFLAGS,
            "baseline_off_cmd": "cd /repo && cargo test --workspace --no-fail-fast --offline",
            "source_commits": HOOK_COMMITS,
            "add_only": True,
        },
        "engines": ENGINES,
        "checks": checks,
        "not_applicable": na,
        "notes": "Machine-checked proof in Coq 8.16.1 over hand-written executable models, tied to /repo by correspondence checks "
                 "that run the extracted model and the implementation on the same inputs on every run. See DESIGN.md.",
    }


NA_REASONS = {}


def write_manifest():
    with open(os.path.join(core.VERIF, "MANIFEST.json"), "w") as f:
        json.dump(manifest(), f, indent=1)
        f.write("\n")


def setup():
    """Build everything from files on disk only (offline)."""
    rc = 0
    try:
        core.log("[setup] coq full build")
        p = core.coq_make([])
        if p.returncode != 0:
            core.log((p.stdout + p.stderr)[-4000:])
            rc = 1
        for e in ENGINES:
            core.log("[setup] model " + e["name"])
            core.build_model(e["name"])
        core.log("[setup] harness + fclones (hooks on)")
        core.build_harness()
        core.build_fclones()
        if os.path.exists(os.path.join(core.VERIF, "shim", "fsshim.c")):
            core.build_shim()
    except Exception as ex:  # noqa
        core.log("setup failed: %r" % (ex,))
        return 1
    return rc
