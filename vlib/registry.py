"""Registry of claimed properties -> MANIFEST.json, and the one-time setup."""
import json
import os
import sys

from . import core

HOOK_COMMITS = ["0aef0c9", "20de43e", "9f327a6"]
FIX_COMMITS = ["234becf", "790b4d0", "4f01341", "60bfb90", "0b426b2", "e95a0ef", "699cec2", "fc3df1b", "a483ad6",
               "121ee44", "95ae875", "df3147f", "78b42a1", "f364479", "6b53a15", "8342e2c", "ab220d5", "a20abe7", "317f56d", "408e1c7", "db63622", "2b878ef", "990ff9c", "e6af885", "f4a00ae", "b49314c", "ea68843", "041ee27", "3bd9c91", "b2576fe", "455b1bc", "f55c3e7", "b09e022", "81dbf73", "8227c8a", "2eccdb7", "7054be1", "093ba7c", "730c76a", "d75e85d", "96dbe61"]

def _load_dir(d):
    out = {}
    base = os.path.join(os.path.dirname(os.path.abspath(__file__)), d)
    for f in sorted(os.listdir(base)):
        if f.endswith(".json"):
            out[f[:-5]] = json.load(open(os.path.join(base, f)))
    return out


# one file per engine / per claimed property: vlib/engines/<E>.json, vlib/claims/<Cxx>.json
# (claim = dict(engine, technique, text, note, design_ref))
ENGINES = list(_load_dir("engines").values())
CHECKS = _load_dir("claims")

NOT_APPLICABLE = []   # filled below with the properties not yet claimed

ALL_PROPS = ["C%02d" % i for i in range(1, 21)]


def claimed():
    return [p for p in ALL_PROPS if p in CHECKS]


def manifest():
    checks = []
    for p in claimed():
        c = CHECKS[p]
        checks.append({
            "property_id": p,
            "quick_cmd": "./check %s --tier quick" % p,
            "thorough_cmd": "./check %s --tier thorough" % p,
            "evidence_file": "/verif/evidence/%s.json" % p,
            "replay_cmd_template": "./check %s --replay {path}" % p,
            "engine": c["engine"],
            "level_claimed": {"category": "proof", "text": c["text"], "design_ref": c["design_ref"]},
            "level_note": c["note"],
            "technique": c["technique"],
        })
    na = [{"property_id": p, "reason": NA_REASONS.get(p, "check not built yet in this round; nothing is claimed for it")}
          for p in ALL_PROPS if p not in CHECKS]
    return {
        "version": 1,
        "setup_cmd": "./check --setup",
        "hooks": {
            "guard": "--cfg " + core.GUARD,
            "enable": "RUSTFLAGS='%s' cargo build --offline (harness crate with fclones = {path=/repo/fclones}; fclones binary) into /verif/.cache/target" % core.RUSTFLAGS,
            "baseline_off_cmd": "cd /repo && cargo test --workspace --no-fail-fast --offline",
            "source_commits": HOOK_COMMITS,
            "add_only": True,
        },
        "engines": ENGINES,
        "checks": checks,
        "not_applicable": na,
        "notes": "Machine-checked proof in Coq 8.16.1 over hand-written executable models, tied to /repo by correspondence checks "
                 "that run the extracted model and the implementation on the same inputs on every run. See DESIGN.md.",
    }


NA_REASONS = {}


def write_manifest(only=None):
    """Regenerate MANIFEST.json; `only` restricts the claimed set (ids) — used while engines are in progress."""
    global CHECKS
    if only is not None:
        CHECKS = {k: v for k, v in CHECKS.items() if k in only}
    with open(os.path.join(core.VERIF, "MANIFEST.json"), "w") as f:
        json.dump(manifest(), f, indent=1)
        f.write("\n")


def setup():
    """Build everything the CLAIMED checks need, from files on disk only (offline).
    Work-in-progress engines that are not claimed yet are not built here."""
    rc = 0
    try:
        # the committed MANIFEST.json is the source of truth for what is claimed
        mf = os.path.join(core.VERIF, "MANIFEST.json")
        props = [c["property_id"] for c in json.load(open(mf))["checks"]] if os.path.exists(mf) else claimed()
        engines = [e for e in ENGINES if set(e.get("serves_properties", [])) & set(props)]
        targets = []
        for p in props:
            targets += ["Props_%s.vo" % p, "Pins_%s.vo" % p]
        targets += ["Extract_%s.vo" % e["name"] for e in engines if os.path.exists(os.path.join(core.COQ, "Extract_%s.v" % e["name"]))]
        core.log("[setup] coq build: " + " ".join(targets))
        p = core.coq_make(targets)
        if p.returncode != 0:
            core.log((p.stdout + p.stderr)[-4000:])
            rc = 1
        for e in engines:
            if os.path.exists(os.path.join(core.COQ, "Extract_%s.v" % e["name"])):
                core.log("[setup] model " + e["name"])
                core.build_model(e["name"])
        bins = sorted({b for e in engines for b in e.get("harness_bins", [])})
        core.log("[setup] harness bins %s + fclones (hooks on)" % bins)
        if bins:
            core.build_harness(bins)
        core.build_fclones()
        if os.path.exists(os.path.join(core.VERIF, "shim", "fsshim.c")):
            core.build_shim()
    except Exception as ex:  # noqa
        core.log("setup failed: %r" % (ex,))
        return 1
    return rc
