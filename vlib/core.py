"""Shared machinery of the fclones verification framework.

Everything a per-property module (vlib/props/cXX.py) needs:
  * Ctx          - run context: tier, seed, PRNG, counters, violations, evidence writer
  * coq_obligations(ctx)   - build the Coq slice of the property, audit it, return obligations
  * build_harness / build_fclones / build_model / build_shim - rebuild from /repo's current tree
  * known findings protocol, replay files, VIOLATION / KNOWN-FINDING lines
No third-party dependencies (python3 stdlib only).
"""
import fcntl
import hashlib
import json
import os
import re
import shutil
import subprocess
import sys
import time
from contextlib import contextmanager

VERIF = os.path.dirname(os.path.dirname(os.path.abspath(__file__)))
REPO = os.environ.get("VERIF_REPO", "/repo")
CACHE = os.path.join(VERIF, ".cache")
COQ = os.path.join(VERIF, "coq")
HARNESS_SRC = os.path.join(VERIF, "harness")
if REPO == "/repo":
    HARNESS = HARNESS_SRC
    TARGET = os.path.join(CACHE, "target")
else:
    # scratch copy of the repository (seeded-change experiments): separate harness copy + target dir
    _tag = hashlib.sha1(REPO.encode()).hexdigest()[:8]
    HARNESS = os.path.join(CACHE, "harness_" + _tag)
    TARGET = os.path.join(CACHE, "target_" + _tag)
BIN = os.path.join(TARGET, "debug")
if REPO == "/repo":
    EVIDENCE = os.path.join(VERIF, "evidence")
    REPLAYS = os.path.join(VERIF, "replays")
else:
    # a run against a scratch copy must never rewrite the committed evidence of /repo
    EVIDENCE = os.path.join(CACHE, "evidence_" + _tag)
    REPLAYS = os.path.join(CACHE, "replays_" + _tag)
SCRATCH_ROOT = os.path.join(CACHE, "scratch")
NCPU = os.cpu_count() or 4

GUARD = "fclones_verif"
RUSTFLAGS = "--cfg %s --check-cfg cfg(%s) -A warnings" % (GUARD, GUARD)

# Axioms that the Coq standard library itself declares and that the trusted base names.
# Any other assumption printed under a property theorem fails the audit.
AXIOM_ALLOW = {
    "functional_extensionality_dep",
    "FunctionalExtensionality.functional_extensionality_dep",
    "proof_irrelevance",
    "ProofIrrelevance.proof_irrelevance",
    "classic",
    "Classical_Prop.classic",
    "JMeq_eq",
    "JMeq.JMeq_eq",
    "Eqdep.Eq_rect_eq.eq_rect_eq",
    "eq_rect_eq",
}

FORBIDDEN = re.compile(
    r"\b(Admitted|admit|Axiom|Axioms|Parameter|Parameters|Conjecture|Conjectures|Abort All"
    r"|Admit Obligations|Unset Guard Checking|Unset Positivity Checking|Unset Universe Checking"
    r"|bypass_check|type-in-type|impredicative-set|native_compute)\b")

BASE_TRUSTED = [
    "Coq 8.16.1 kernel (coqc full .vo build; vm_compute used for witnesses and finite sweeps; no native_compute)",
    "no axioms declared by the development (grep audit for Admitted/admit/Axiom/Parameter/Conjecture/unset checks on every run)",
    "Print Assumptions under every property theorem is parsed on every run and must be 'Closed under the global context' or a std-lib axiom on the allow-list",
    "extraction: ExtrOcamlBasic only (Extract Inductive bool/option/unit/list/prod/sumbool/sumor; no Extract Constant); N/Z/positive/nat stay extracted datatypes; OCaml 4.13.1; hand-written line-protocol driver",
    "correspondence harness (Rust generators, canonicalisation, python oracles) tying the hand-written model to /repo's current source on every run",
]


def log(*a):
    print(*a, file=sys.stderr, flush=True)


def run(cmd, cwd=None, env=None, timeout=None, input=None, check=False, text=True):
    e = dict(os.environ)
    if env:
        e.update(env)
    p = subprocess.run(cmd, cwd=cwd, env=e, timeout=timeout, input=input,
                       stdout=subprocess.PIPE, stderr=subprocess.PIPE, text=text)
    if check and p.returncode != 0:
        raise RuntimeError("command failed (%d): %s\n%s\n%s" % (
            p.returncode, cmd if isinstance(cmd, str) else " ".join(cmd),
            (p.stdout or "")[-4000:] if text else "", (p.stderr or "")[-4000:] if text else ""))
    return p


@contextmanager
def flock(name):
    os.makedirs(CACHE, exist_ok=True)
    f = open(os.path.join(CACHE, name + ".lock"), "w")
    try:
        fcntl.flock(f, fcntl.LOCK_EX)
        yield
    finally:
        fcntl.flock(f, fcntl.LOCK_UN)
        f.close()


class SplitMix64:
    """The single PRNG stream every random choice derives from (same algorithm in harness/src/lib.rs)."""
    M = (1 << 64) - 1

    def __init__(self, seed):
        self.s = seed & self.M

    def next(self):
        self.s = (self.s + 0x9E3779B97F4A7C15) & self.M
        z = self.s
        z = ((z ^ (z >> 30)) * 0xBF58476D1CE4E5B9) & self.M
        z = ((z ^ (z >> 27)) * 0x94D049BB133111EB) & self.M
        return z ^ (z >> 31)

    def below(self, n):
        return self.next() % n if n > 0 else 0

    def choice(self, xs):
        return xs[self.below(len(xs))]

    def chance(self, num, den):
        return self.below(den) < num

    def fork(self):
        return SplitMix64(self.next())

    def shuffle(self, xs):
        xs = list(xs)
        for i in range(len(xs) - 1, 0, -1):
            j = self.below(i + 1)
            xs[i], xs[j] = xs[j], xs[i]
        return xs


# ----------------------------------------------------------------------------------------------
# builds

def cargo_env():
    return {"RUSTFLAGS": RUSTFLAGS, "CARGO_NET_OFFLINE": "true", "CARGO_TERM_COLOR": "never",
            "CARGO_TARGET_DIR": TARGET, "VERIF_REPO": REPO}


def _sync_harness_copy():
    """VERIF_REPO=/some/copy: mirror harness/ with the path dependency pointing at the copy."""
    if HARNESS == HARNESS_SRC:
        return
    os.makedirs(HARNESS, exist_ok=True)
    run(["rsync", "-a", "--delete", "--exclude", "target", "--exclude", "Cargo.lock", "--exclude", "Cargo.toml",
         HARNESS_SRC + "/", HARNESS + "/"], check=True)
    toml = open(os.path.join(HARNESS_SRC, "Cargo.toml")).read().replace('path = "/repo/fclones"', 'path = "%s/fclones"' % REPO)
    dst = os.path.join(HARNESS, "Cargo.toml")
    if not os.path.exists(dst) or open(dst).read() != toml:
        open(dst, "w").write(toml)


def build_harness(bins=None, timeout=1800):
    """(Re)build the harness crate against /repo's current working tree, hooks on."""
    with flock("cargo" + os.path.basename(TARGET)):
        _sync_harness_copy()
        lock_src = os.path.join(REPO, "Cargo.lock")
        lock_dst = os.path.join(HARNESS, "Cargo.lock")
        if os.path.exists(lock_src) and not os.path.exists(lock_dst):
            shutil.copy(lock_src, lock_dst)
        cmd = ["cargo", "build", "--offline", "--manifest-path", os.path.join(HARNESS, "Cargo.toml")]
        if bins:
            for b in bins:
                cmd += ["--bin", b]
        p = run(cmd, env=cargo_env(), timeout=timeout)
        if p.returncode != 0:
            raise BuildError("harness build failed:\n" + p.stderr[-6000:])
    return BIN


def build_fclones(timeout=1800):
    """Build the fclones binary from /repo's current working tree with the hooks enabled."""
    with flock("cargo" + os.path.basename(TARGET)):
        cmd = ["cargo", "build", "--offline", "--manifest-path", os.path.join(REPO, "fclones", "Cargo.toml"),
               "--bin", "fclones"]
        p = run(cmd, env=cargo_env(), timeout=timeout)
        if p.returncode != 0:
            raise BuildError("fclones build failed:\n" + p.stderr[-6000:])
    return os.path.join(BIN, "fclones")


def build_shim():
    with flock("shim"):
        src = os.path.join(VERIF, "shim", "fsshim.c")
        out = os.path.join(CACHE, "fsshim.so")
        if not os.path.exists(out) or os.path.getmtime(out) < os.path.getmtime(src):
            run(["gcc", "-O1", "-shared", "-fPIC", "-o", out, src, "-ldl"], check=True)
    return out


class BuildError(Exception):
    pass


def coq_make(targets, timeout=420):
    """Full .vo build (no -vos) of the given targets through the coq_makefile Makefile."""
    with flock("coq"):
        mk = os.path.join(COQ, "Makefile")
        cp = os.path.join(COQ, "_CoqProject")
        # _CoqProject lists every .v file of coq/ (dependency order is coqdep's business)
        want = "-Q . FV\n" + "".join(f + "\n" for f in coq_sources())
        if not os.path.exists(cp) or open(cp).read() != want:
            open(cp, "w").write(want)
        if not os.path.exists(mk) or os.path.getmtime(mk) < os.path.getmtime(cp):
            run(["coq_makefile", "-f", "_CoqProject", "-o", "Makefile"], cwd=COQ, check=True)
        os.makedirs(os.path.join(COQ, "extracted"), exist_ok=True)
        p = run(["timeout", str(timeout), "make", "-j%d" % NCPU] + targets, cwd=COQ)
        return p


def build_model(engine, timeout=600):
    """Extract engine <engine> (coq/Extract_<engine>.v -> coq/extracted/ex_<engine>.ml) and link it with
    coq/driver/drvlib.ml + coq/driver/drv_<engine>.ml into .cache/model_<engine>."""
    ex_path = os.path.join(COQ, "extracted", "ex_%s.ml" % engine)
    vo = os.path.join(COQ, "Extract_%s.vo" % engine)
    if not os.path.exists(ex_path) and os.path.exists(vo):
        os.remove(vo)
    p = coq_make(["Extract_%s.vo" % engine])
    if p.returncode != 0:
        raise BuildError("coq build of Extract_%s failed:\n%s" % (engine, (p.stdout + p.stderr)[-6000:]))
    with flock("ocaml_" + engine):
        ex = os.path.join(COQ, "extracted", "ex_%s.ml" % engine)
        lib = os.path.join(COQ, "driver", "drvlib.ml")
        drv = os.path.join(COQ, "driver", "drv_%s.ml" % engine)
        out = os.path.join(CACHE, "model_%s" % engine)
        h = hashlib.sha256()
        for f in (ex, lib, drv):
            h.update(open(f, "rb").read())
        stamp = out + ".stamp"
        if os.path.exists(out) and os.path.exists(stamp) and open(stamp).read() == h.hexdigest():
            return out
        bdir = os.path.join(CACHE, "ocaml_%s" % engine)
        shutil.rmtree(bdir, ignore_errors=True)
        os.makedirs(bdir)
        shutil.copy(ex, os.path.join(bdir, "ex.ml"))
        exi = ex + "i"
        if os.path.exists(exi):
            shutil.copy(exi, os.path.join(bdir, "ex.mli"))
        with open(os.path.join(bdir, "main.ml"), "w") as f:
            f.write("open Ex\n")
            f.write(open(lib).read())
            f.write("\n")
            f.write(open(drv).read())
        srcs = (["ex.mli"] if os.path.exists(exi) else []) + ["ex.ml", "main.ml"]
        p = run(["ocamlfind", "ocamlopt", "-inline", "100", "-w", "-a", "-package", "str,unix",
                 "-linkpkg"] + srcs + ["-o", out], cwd=bdir, timeout=timeout)
        if p.returncode != 0:
            raise BuildError("ocaml build of model %s failed:\n%s" % (engine, p.stderr[-6000:]))
        open(stamp, "w").write(h.hexdigest())
        return out


# ----------------------------------------------------------------------------------------------
# Coq audit

def coq_sources():
    return sorted(f for f in os.listdir(COQ) if f.endswith(".v"))


def strip_comments(src):
    out, depth, i = [], 0, 0
    while i < len(src):
        if src.startswith("(*", i):
            depth += 1
            i += 2
        elif src.startswith("*)", i) and depth > 0:
            depth -= 1
            i += 2
        else:
            if depth == 0:
                out.append(src[i])
            i += 1
    return "".join(out)


def forbidden_scan():
    """grep audit over every .v file of the development (comments stripped)."""
    bad = []
    for f in coq_sources():
        src = strip_comments(open(os.path.join(COQ, f)).read())
        for n, line in enumerate(src.split("\n"), 1):
            m = FORBIDDEN.search(line)
            if m:
                bad.append("%s:%d: %s" % (f, n, m.group(0)))
        if re.search(r"^\s*(Variable|Variables|Hypothesis|Hypotheses|Context)\b", src, re.M):
            # allowed only inside sections: check nesting crudely
            depth = 0
            for n, line in enumerate(src.split("\n"), 1):
                if re.match(r"\s*Section\b", line):
                    depth += 1
                elif re.match(r"\s*End\b", line) and depth > 0:
                    depth -= 1
                elif re.match(r"\s*(Variable|Variables|Hypothesis|Hypotheses|Context)\b", line) and depth == 0:
                    bad.append("%s:%d: %s outside a section" % (f, n, line.strip()[:40]))
    return bad


THEOREM_RE = re.compile(r"^\s*(Theorem|Lemma|Corollary|Example)\s+([A-Za-z0-9_']+)", re.M)


def parse_assumptions(source, output):
    """Pair the i-th `Print Assumptions name.` command of the (comment-stripped) source with the i-th
    assumptions block of the coqc output: {name: [axioms]} ([] = Closed under the global context)."""
    names = re.findall(r"^\s*Print Assumptions\s+([A-Za-z0-9_']+)\s*\.", source, re.M)
    blocks, cur = [], None
    for line in output.split("\n"):
        if "Closed under the global context" in line:
            if cur is not None:
                blocks.append(cur)
                cur = None
            blocks.append([])
        elif line.startswith("Axioms:"):
            if cur is not None:
                blocks.append(cur)
            cur = []
        elif cur is not None:
            m = re.match(r"^([A-Za-z0-9_.']+)\s*:", line)
            if m:
                cur.append(m.group(1))
            elif line and not line.startswith(" ") and not line.startswith("\t"):
                blocks.append(cur)
                cur = None
    if cur is not None:
        blocks.append(cur)
    if len(blocks) != len(names):
        return {}
    return dict(zip(names, blocks))


def coq_obligations(prop, extra_targets=(), thorough=False):
    """Build and audit the Coq slice of property <prop>.

    coq/Props_<prop>.v holds only `Theorem name : stmt. Proof. exact lemma. Qed.` +
    `Eval compute in "ASSUMPTIONS OF name". Print Assumptions name.` and Examples;
    coq/Pins_<prop>.v pins each statement with `Check name : stmt.`.
    Returns dict(obligations=[names], discharged=[names], failures=[{name, why}], detail=str).
    """
    props = "Props_%s" % prop
    pins = "Pins_%s" % prop
    res = {"obligations": [], "discharged": [], "failures": [], "checker_cmd": "", "axioms": {}}
    src_path = os.path.join(COQ, props + ".v")
    if not os.path.exists(src_path):
        res["failures"].append({"name": props, "why": "missing " + props + ".v"})
        return res
    src = strip_comments(open(src_path).read())
    theorems = [m.group(2) for m in THEOREM_RE.finditer(src) if m.group(1) in ("Theorem",)]
    res["obligations"] = theorems
    bad = forbidden_scan()
    targets = [props + ".vo"] + ([pins + ".vo"] if os.path.exists(os.path.join(COQ, pins + ".v")) else []) \
        + list(extra_targets)
    res["checker_cmd"] = ("cd coq && coq_makefile -f _CoqProject -o Makefile && make -j%d %s && "
                          "coqc -Q . FV %s.v (Print Assumptions parsed)" % (NCPU, " ".join(targets), props))
    p = coq_make(targets)
    if p.returncode != 0:
        err = (p.stdout + "\n" + p.stderr)
        # name the file/theorem that no longer checks
        m = re.search(r'File "\./([A-Za-z0-9_]+\.v)", line (\d+)', err)
        res["failures"].append({"name": m.group(1) + ":" + m.group(2) if m else props,
                                "why": "coq build failed: " + err[-1500:]})
        return res
    outdir = os.path.join(CACHE, "assump")
    os.makedirs(outdir, exist_ok=True)
    with flock("coq"):
        p2 = run(["timeout", "600", "coqc", "-q", "-Q", ".", "FV", props + ".v", "-o",
                  os.path.join(outdir, props + ".vo")], cwd=COQ)
    if p2.returncode != 0:
        res["failures"].append({"name": props, "why": "coqc failed: " + (p2.stdout + p2.stderr)[-1500:]})
        return res
    ass = parse_assumptions(src, p2.stdout)
    res["axioms"] = ass
    pins_src = ""
    if os.path.exists(os.path.join(COQ, pins + ".v")):
        pins_src = strip_comments(open(os.path.join(COQ, pins + ".v")).read())
    for t in theorems:
        if t not in ass or ass[t] is None:
            res["failures"].append({"name": t, "why": "no Print Assumptions block under the theorem"})
            continue
        notallowed = [a for a in ass[t] if a not in AXIOM_ALLOW and a.split(".")[-1] not in AXIOM_ALLOW]
        if notallowed:
            res["failures"].append({"name": t, "why": "depends on non-allow-listed axioms: " + ", ".join(notallowed)})
            continue
        if not re.search(r"\bCheck\s+\(?@?%s\b" % re.escape(t), pins_src):
            res["failures"].append({"name": t, "why": "statement is not pinned in %s.v" % pins})
            continue
        res["discharged"].append(t)
    if bad:
        res["failures"].append({"name": "audit", "why": "forbidden constructs: " + "; ".join(bad[:10])})
        res["discharged"] = []
    if thorough and not res["failures"]:
        with flock("coq"):
            p3 = run(["timeout", "1500", "coqchk", "-silent", "-o", "-Q", ".", "FV", "FV." + props], cwd=COQ)
        out = p3.stdout + p3.stderr
        res["coqchk"] = out[-3000:]
        res["checker_cmd"] += " && coqchk -silent -o -Q . FV FV.%s" % props
        if p3.returncode != 0:
            res["failures"].append({"name": "coqchk", "why": out[-1500:]})
        else:
            m = re.search(r"\* Axioms:(.*?)(\n\* |\Z)", out, re.S)
            axs = [a.strip() for a in (m.group(1) if m else "").split("\n") if a.strip() and a.strip() != "<none>"]
            bad_ax = [a for a in axs if a.split(".")[-1] not in AXIOM_ALLOW and a not in AXIOM_ALLOW]
            res["coqchk_axioms"] = axs
            if bad_ax:
                res["failures"].append({"name": "coqchk", "why": "axioms: " + ", ".join(bad_ax)})
    return res


# ----------------------------------------------------------------------------------------------
# known findings

def load_known():
    """known_findings.json plus the per-engine files known_findings.d/*.json (same format); read-only."""
    out = []
    p = os.path.join(VERIF, "known_findings.json")
    if os.path.exists(p):
        out += json.load(open(p)).get("findings", [])
    d = os.path.join(VERIF, "known_findings.d")
    if os.path.isdir(d):
        for f in sorted(os.listdir(d)):
            if f.endswith(".json"):
                out += json.load(open(os.path.join(d, f))).get("findings", [])
    return out


def sig_matches(pattern, sig):
    """A known finding matches when every key of its pattern equals the violation's signature value."""
    return all(sig.get(k) == v for k, v in pattern.items())


# ----------------------------------------------------------------------------------------------
# context

class Ctx:
    def __init__(self, prop, tier, seed, replay=None):
        self.prop = prop
        self.tier = tier
        self.seed = seed
        self.replay = replay
        self.rng = SplitMix64(seed ^ int(hashlib.sha256(prop.encode()).hexdigest()[:8], 16))
        self.t0 = time.time()
        self.evaluations = 0
        self._distinct = set()
        self.samples = []
        self.hist = {}
        self.violations = []      # (signature dict, what, replay path, found_input bool)
        self.known_hits = {}      # finding id -> count
        self.violation_counts = {}
        self.rule = ""
        self.assumptions = []
        self.extra = {}
        self.coq = None
        self.trusted = list(BASE_TRUSTED)
        self.known = [k for k in load_known() if k.get("property") == prop]
        self.scratch = os.path.join(SCRATCH_ROOT, "%s_%d" % (prop, os.getpid()))
        shutil.rmtree(self.scratch, ignore_errors=True)
        os.makedirs(self.scratch, exist_ok=True)
        os.makedirs(EVIDENCE, exist_ok=True)
        os.makedirs(REPLAYS, exist_ok=True)
        for f in os.listdir(REPLAYS):
            if f.startswith(prop + "_") and not (replay and os.path.abspath(replay) == os.path.join(REPLAYS, f)):
                os.remove(os.path.join(REPLAYS, f))

    @property
    def quick(self):
        return self.tier == "quick"

    def pick(self, quick, thorough):
        return quick if self.tier == "quick" else thorough

    def count(self, n=1):
        self.evaluations += n

    def distinct(self, key, nontrivial=True):
        """Record one explored case; `key` identifies it, non-trivial ones are counted once each."""
        if nontrivial:
            self._distinct.add(hashlib.sha1(repr(key).encode()).digest()[:10])

    def sample(self, s, cap=6):
        if len(self.samples) < cap:
            self.samples.append(s)

    def bump(self, dim, val, n=1):
        d = self.hist.setdefault(dim, {})
        d[str(val)] = d.get(str(val), 0) + n

    def write_replay(self, name, payload):
        path = os.path.join(REPLAYS, "%s_%s.json" % (self.prop, name))
        with open(path, "w") as f:
            json.dump(payload, f, indent=1, default=str)
        return path

    def violation(self, sig, what, payload, found_input=True):
        """Report a failing case. `sig` is matched against known_findings.json; unmatched => VIOLATION."""
        for k in self.known:
            if sig_matches(k["match"], sig):
                self.known_hits.setdefault(k["id"], {"what": k["what"], "n": 0, "example": payload})
                self.known_hits[k["id"]]["n"] += 1
                return False
        n = len(self.violations)
        same = [v for v in self.violations if v[0].get("kind") == sig.get("kind") and v[0].get("name") == sig.get("name")]
        if same:
            # one replay per kind of failure: the first (found earliest, usually smallest) is kept
            self.violation_counts[sig.get("kind")] = self.violation_counts.get(sig.get("kind"), 1) + 1
            return True
        if n < 20:
            tag = "%d_%s" % (n, re.sub(r"[^A-Za-z0-9]+", "_", str(sig.get("kind", "v")))[:40])
            payload = dict(payload) if isinstance(payload, dict) else {"case": payload}
            payload.update({"property": self.prop, "signature": sig, "what": what, "seed": self.seed,
                            "failing_input_found": found_input})
            path = self.write_replay(tag, payload)
        else:
            path = self.violations[-1][2]
        self.violations.append((sig, what, path, found_input))
        return True

    def proof_failure(self, failures):
        for f in failures:
            self.violation({"kind": "proof_obligation", "name": f["name"]},
                           "theorem/obligation no longer checks: %s (%s)" % (f["name"], f["why"][:300]),
                           {"theorem": f["name"], "why": f["why"]}, found_input=False)

    def use_coq(self, extra_targets=()):
        """Step 1 of every check: the proof obligations of this property."""
        self.coq = coq_obligations(self.prop, extra_targets, thorough=(self.tier == "thorough"
                                                                       and os.environ.get("VERIF_COQCHK", "1") == "1"))
        if self.coq["failures"]:
            self.pending_proof_failures = self.coq["failures"]
        else:
            self.pending_proof_failures = []
        return self.coq

    def finish(self):
        """Resolve proof failures (after the search for a failing input ran), print lines, write evidence."""
        if getattr(self, "pending_proof_failures", None):
            # a concrete failing input found by the check's own search takes precedence as the replay
            have_input = [v for v in self.violations if v[3]]
            if not have_input:
                self.proof_failure(self.pending_proof_failures)
        for kid, k in sorted(self.known_hits.items()):
            print("KNOWN-FINDING: property=%s %s: %s (%d matching cases this run)" % (self.prop, kid, k["what"], k["n"]))
        seen = set()
        for sig, what, path, found in self.violations:
            if path in seen:
                continue
            seen.add(path)
            print("VIOLATION property=%s replay=%s%s" % (self.prop, path, "" if found else " no-failing-input-found"))
            log("  -> " + what[:500])
        coq = self.coq or {"obligations": [], "discharged": [], "checker_cmd": "", "axioms": {}}
        cov = {
            "obligations": len(coq["obligations"]),
            "discharged": len(coq["discharged"]),
            "obligation_names": coq["obligations"],
            "axioms_per_theorem": {k: v for k, v in coq.get("axioms", {}).items()},
            "checker_cmd": coq["checker_cmd"] or "n/a",
            "trusted_base": self.trusted,
            "evaluations": self.evaluations,
            "distinct_nontrivial": len(self._distinct),
            "rule": self.rule,
            "samples": self.samples or ["(no sample recorded)"],
            "input_distribution": self.hist,
            "known_findings_hit": {k: v["n"] for k, v in self.known_hits.items()},
            "violation_counts": self.violation_counts,
        }
        if "coqchk_axioms" in coq:
            cov["coqchk_axioms"] = coq["coqchk_axioms"]
        cov.update(self.extra)
        ev = {
            "property_id": self.prop,
            "tier": self.tier,
            "seed": self.seed,
            "level": "proof",
            "coverage": cov,
            "assumptions": self.assumptions,
            "wall_s": round(time.time() - self.t0, 2),
            "violations": len(seen),
        }
        with open(os.path.join(EVIDENCE, self.prop + ".json"), "w") as f:
            json.dump(ev, f, indent=1, default=str)
        shutil.rmtree(self.scratch, ignore_errors=True)
        return 1 if self.violations else 0


def chunks(xs, n):
    for i in range(0, len(xs), n):
        yield xs[i:i + n]


def run_lines(binary, lines, args=(), env=None, timeout=3600, cwd=None):
    """Feed newline-separated cases to a line-protocol process, return its output lines."""
    data = "\n".join(lines) + "\n"
    p = run([binary] + list(args), input=data, env=env, timeout=timeout, cwd=cwd)
    if p.returncode != 0:
        raise RuntimeError("%s exited %d: %s" % (binary, p.returncode, p.stderr[-3000:]))
    out = p.stdout.split("\n")
    if out and out[-1] == "":
        out.pop()
    return out


def run_lines_parallel(binary, lines, args=(), env=None, timeout=3600, shards=None):
    """Same, sharded over the cores; order of output lines is preserved."""
    from concurrent.futures import ThreadPoolExecutor
    shards = shards or NCPU
    if len(lines) < 4 * shards:
        return run_lines(binary, lines, args, env, timeout)
    size = (len(lines) + shards - 1) // shards
    parts = list(chunks(lines, size))
    with ThreadPoolExecutor(max_workers=shards) as ex:
        outs = list(ex.map(lambda part: run_lines(binary, part, args, env, timeout), parts))
    res = []
    for part, o in zip(parts, outs):
        if len(o) != len(part):
            raise RuntimeError("%s: %d output lines for %d input lines" % (binary, len(o), len(part)))
        res.extend(o)
    return res
