"""Tree generation, inventories and fclones CLI helpers shared by the whole-program checks
(C02, C11, C13, C14, C15).  Everything random derives from the SplitMix64 passed in."""
import hashlib
import json
import os
import stat
import subprocess

from . import core

KIB = 1024
# sizes around every stage threshold for the SSD pin (prefix 4 KiB, suffix threshold 64 KiB, 64 KiB read buffer)
SIZES_SSD = [0, 1, 2, 100, 4095, 4096, 4097, 8191, 8192, 16383, 16384, 16385, 65535, 65536, 65537,
             65536 + 4095, 65536 + 4096, 65536 + 4097, 131071, 131072, 131073, 200000]
SMALL_SIZES = [0, 1, 2, 3, 100, 1000, 4095, 4096, 4097, 5000, 9000]

HOSTILE_NAMES = ["a b", " lead", "trail ", "q'uote", 'd"q', "back\\slash", "new\nline", "tab\there", "$dollar", "`tick`",
                 "~tilde", "#hash", "star*", "żółw", "€uro", "😀", "-dash", "semi;colon", "amp&", "(paren)", "[br]", "{cb}",
                 "pipe|", "less<", "per%cent", "eq=", "plus+", "ex!cl", "a,b", "c:d", "nbsp x", "cr\rx"]
HOSTILE_BYTES = [b"bad\xff", b"\xfe\xfd", b"ok\xc3", b"\x7fdel", b"\x01ctl"]


def content(seed, size):
    """Deterministic pseudo-random bytes (fast: sha256 counter mode)."""
    out = bytearray()
    i = 0
    s = ("%d" % seed).encode()
    while len(out) < size:
        out += hashlib.sha256(s + b":%d" % i).digest()
        i += 1
    return bytes(out[:size])


def variant(data, pos, delta=1):
    if not data:
        return data
    pos = min(max(pos, 0), len(data) - 1)
    b = bytearray(data)
    b[pos] = (b[pos] + delta) % 256
    return bytes(b)


def diff_positions(size, prefix=4096, suffix=4096):
    """Single-byte difference position classes relative to the stage boundaries."""
    cands = {0, 1, prefix - 1, prefix, prefix + 1, size // 2, size - suffix - 1, size - suffix, size - suffix + 1,
             size - 2, size - 1, 65535, 65536, 65537, 131071, 131072}
    return sorted(p for p in cands if 0 <= p < size)


class Tree:
    """A generated directory tree: self.files = list of dicts(path(bytes, absolute), cls(content class id), size,
    ino_group (hard-link set id or None)), self.roots = list of root dirs (bytes)."""

    def __init__(self, base):
        self.base = base if isinstance(base, bytes) else base.encode()
        self.files = []
        self.roots = []
        self.symlinks = []   # (link path, target path)

    def add_file(self, path, data, cls, mtime_ns=None):
        os.makedirs(os.path.dirname(path), exist_ok=True)
        with open(path, "wb") as f:
            f.write(data)
        if mtime_ns is not None:
            os.utime(path, ns=(mtime_ns, mtime_ns))
        self.files.append({"path": path, "cls": cls, "size": len(data), "link_of": None})

    def add_hardlink(self, src, path):
        os.makedirs(os.path.dirname(path), exist_ok=True)
        os.link(src, path)
        srcf = [f for f in self.files if f["path"] == src][0]
        self.files.append({"path": path, "cls": srcf["cls"], "size": srcf["size"], "link_of": srcf["link_of"] or src})
        if srcf["link_of"] is None:
            srcf["link_of"] = src

    def add_symlink(self, target, path):
        os.makedirs(os.path.dirname(path), exist_ok=True)
        os.symlink(target, path)
        self.symlinks.append((path, target))


def gen_tree(rng, base, nroots=None, nfiles=None, sizes=None, names="plain", hardlinks=True, symlinks=False,
             max_depth=3, families=None):
    """Generate a tree with duplicate classes spread over directories and roots.
    names: "plain" | "hostile" (shell-hostile and non-UTF-8 names mixed in)."""
    base_b = base if isinstance(base, bytes) else base.encode()
    t = Tree(base_b)
    nroots = nroots or 1 + rng.below(3)
    nfiles = nfiles if nfiles is not None else 4 + rng.below(24)
    sizes = sizes or SIZES_SSD
    families = families or 1 + rng.below(4)
    for r in range(nroots):
        root = os.path.join(base_b, b"r%d" % r)
        os.makedirs(root, exist_ok=True)
        t.roots.append(root)
    # content classes: family -> base size/content; members are exact copies or single-byte variants
    fams = []
    for fi in range(families):
        size = rng.choice(sizes)
        fams.append((size, content(rng.next(), size)))
    classes = {}   # cls id -> data
    ncls = 0
    counter = 0
    for _ in range(nfiles):
        fi = rng.below(len(fams))
        size, data = fams[fi]
        kind = rng.below(10)
        if kind < 5 or size == 0:
            d = data
        elif kind < 9:
            d = variant(data, rng.choice(diff_positions(size)), 1 + rng.below(3))
        else:
            d = data[:max(0, size - 1 - rng.below(3))]   # same prefix, shorter
        key = hashlib.sha256(d).digest()
        if key not in classes:
            classes[key] = ncls
            ncls += 1
        cls = classes[key]
        root = rng.choice(t.roots)
        depth = rng.below(max_depth + 1)
        comps = []
        for _ in range(depth):
            comps.append(_name(rng, names, counter, True))
            counter += 1
        fname = _name(rng, names, counter, False)
        counter += 1
        path = os.path.join(root, *comps, fname) if comps else os.path.join(root, fname)
        if os.path.lexists(path) or _is_under_file(path, t):
            continue
        existing = [f for f in t.files if f["cls"] == cls]
        if hardlinks and existing and rng.chance(1, 4):
            try:
                t.add_hardlink(existing[0]["path"], path)
            except OSError:
                continue
        else:
            try:
                t.add_file(path, d, cls)
            except OSError:
                continue
    if symlinks:
        for f in list(t.files):
            if rng.chance(1, 6):
                lp = f["path"] + b".lnk"
                if not os.path.lexists(lp):
                    tgt = f["path"] if rng.chance(1, 2) else os.path.relpath(f["path"], os.path.dirname(lp))
                    t.add_symlink(tgt, lp)
    return t


def _is_under_file(path, t):
    d = os.path.dirname(path)
    while len(d) > len(t.base):
        if os.path.isfile(d):
            return True
        d = os.path.dirname(d)
    return False


def _name(rng, mode, counter, is_dir):
    if mode == "hostile" and rng.chance(1, 2):
        if rng.chance(1, 5):
            return rng.choice(HOSTILE_BYTES) + b"%d" % counter
        return (rng.choice(HOSTILE_NAMES) + "%d" % counter).encode("utf-8")
    return (("d%d" if is_dir else "f%d") % counter).encode()


def inventory(root):
    """{path: (type, ino, nlink, link target, sha256, mtime_ns, mode, size)} of everything under root (bytes paths)."""
    root = root if isinstance(root, bytes) else root.encode()
    inv = {}
    for d, dirs, files in os.walk(root):
        for n in dirs + files:
            p = os.path.join(d, n)
            st = os.lstat(p)
            if stat.S_ISLNK(st.st_mode):
                inv[p] = ("l", st.st_ino, st.st_nlink, os.readlink(p), None, st.st_mtime_ns, st.st_mode, st.st_size)
            elif stat.S_ISDIR(st.st_mode):
                inv[p] = ("d", st.st_ino, None, None, None, None, st.st_mode, None)
            elif stat.S_ISREG(st.st_mode):
                with open(p, "rb") as f:
                    h = hashlib.sha256(f.read()).hexdigest()
                inv[p] = ("f", st.st_ino, st.st_nlink, None, h, st.st_mtime_ns, st.st_mode, st.st_size)
            else:
                inv[p] = ("o", st.st_ino, st.st_nlink, None, None, st.st_mtime_ns, st.st_mode, st.st_size)
    return inv


def fclones(args, cwd=None, env=None, stdin=None, timeout=120):
    """Run the freshly built fclones binary; returns (rc, stdout bytes, stderr bytes); rc=-9 on timeout (hang)."""
    exe = os.path.join(core.BIN, "fclones")
    e = dict(os.environ)
    e.setdefault("NO_COLOR", "1")
    if env:
        e.update(env)
    argv = [exe] + [a if isinstance(a, (bytes, str)) else str(a) for a in args]
    try:
        p = subprocess.run(argv, cwd=cwd, env=e, input=stdin, stdout=subprocess.PIPE, stderr=subprocess.PIPE, timeout=timeout)
        return p.returncode, p.stdout, p.stderr
    except subprocess.TimeoutExpired as ex:
        return -9, ex.stdout or b"", ex.stderr or b""


def stfu8_decode(s):
    """Decode the STFU-8 text fclones writes for paths in JSON/text reports back to bytes."""
    out = bytearray()
    i = 0
    while i < len(s):
        c = s[i]
        if c != "\\":
            out += c.encode("utf-8")
            i += 1
            continue
        n = s[i + 1]
        if n == "\\":
            out += b"\\"; i += 2
        elif n == "t":
            out += b"\t"; i += 2
        elif n == "n":
            out += b"\n"; i += 2
        elif n == "r":
            out += b"\r"; i += 2
        elif n == "x":
            out.append(int(s[i + 2:i + 4], 16)); i += 4
        elif n == "u":
            out += chr(int(s[i + 2:i + 8], 16)).encode("utf-8", "surrogatepass"); i += 8
        else:
            raise ValueError("bad stfu8 escape at %d in %r" % (i, s))
    return bytes(out)


def parse_json_report(text):
    """-> (header dict, [ {len, hash, files:[bytes paths]} ])"""
    j = json.loads(text)
    groups = [{"len": g["file_len"], "hash": g["file_hash"], "files": [stfu8_decode(p) for p in g["files"]]}
              for g in j.get("groups", [])]
    return j.get("header", {}), groups


def body_key(groups):
    """Exact body: order of groups, order of paths, len, hash."""
    return [(g["len"], g["hash"], tuple(g["files"])) for g in groups]


def partition_key(groups):
    """Partition only: set of (len, frozenset(paths))."""
    return sorted((g["len"], tuple(sorted(g["files"]))) for g in groups)
