/* fsshim.c — LD_PRELOAD shim of engine A (C05 / C18 / C20 / tracing half of C07, C15).
 *
 * Interposes the libc entry points Rust std (and the crates fclones uses) call to MUTATE the file
 * system, keeps ONE process-wide counter over the calls of the selected class that touch a path
 * (or a descriptor opened on a path) under FSSHIM_SCOPE, and can
 *     - fail the k-th counted call with a chosen errno          FSSHIM_FAIL_AT=k FSSHIM_ERRNO=n
 *       (and a second one: FSSHIM_FAIL_AT2 / FSSHIM_ERRNO2 — operation fails AND its roll-back fails)
 *     - SIGKILL the process just before / just after call k     FSSHIM_KILL_AT=k FSSHIM_KILL_WHEN=before|after
 *     - simulate a successful FICLONE by copying the bytes      FSSHIM_SIM_FICLONE=1   (labelled SIM in the trace)
 * and writes one line per observed call to the inherited descriptor FSSHIM_FD with the raw
 * write system call (the logger never enters its own wrappers).
 *
 * Trace line:   <n> <TAB> <name> <TAB> <ret> <TAB> <errno> <TAB> <inj> <TAB> <arg>...
 *   n     = index of the call in the counted class (1-based), 0 for calls that are only observed
 *           (read-only opens, close): those never fail / kill and do not move the counter
 *   inj   = "-" real call executed, "F" failure injected (the real call was NOT made),
 *           "S" simulated (FICLONE), "KB"/"KA" line written immediately before the process kills itself
 *   paths are percent-encoded (bytes outside [A-Za-z0-9_./-] as %XX); descriptors are printed as
 *   fd=<n>:<path it was opened on>
 *
 * Build: gcc -O1 -shared -fPIC -o fsshim.so fsshim.c -ldl        (vlib/core.py build_shim)
 */
#define _GNU_SOURCE
#include <dlfcn.h>
#include <errno.h>
#include <fcntl.h>
#include <pthread.h>
#include <signal.h>
#include <stdarg.h>
#include <stdint.h>
#include <stdio.h>
#include <stdlib.h>
#include <string.h>
#include <sys/ioctl.h>
#include <sys/stat.h>
#include <sys/syscall.h>
#include <sys/time.h>
#include <sys/types.h>
#include <unistd.h>
#include <utime.h>

#ifndef FICLONE
#define FICLONE _IOW(0x94, 9, int)
#endif
#ifndef F_OFD_SETLK
#define F_OFD_SETLK 37
#endif
#ifndef F_OFD_SETLKW
#define F_OFD_SETLKW 38
#endif

#define MAXFD 4096
#define MAXPATH 4096

static long (*real_syscall)(long, ...);
static int trace_fd = -1;
static long fail_at = 0, fail_at2 = 0, kill_at = 0;
static long plant_at = 0;               /* before counted call k ANOTHER PROCESS creates FSSHIM_PLANT_PATH (played by the shim) */
static const char *plant_path = NULL;
static int fail_errno = EIO, fail_errno2 = EIO, kill_after = 0, sim_ficlone = 0;
static __thread int cur_errno = EIO;   /* errno of the failure being injected into the current call */
static char scope[MAXPATH];
static size_t scope_len = 0;
static long counter = 0;
static pthread_mutex_t mu = PTHREAD_MUTEX_INITIALIZER;
static char *fdpath[MAXFD];      /* path a descriptor was opened on (only in-scope descriptors) */
static char fdwr[MAXFD];         /* opened for writing */
static int inited = 0;

#define REAL(ret, name, ...) \
    static ret (*real_##name)(__VA_ARGS__); \
    if (!real_##name) real_##name = (ret(*)(__VA_ARGS__))dlsym(RTLD_NEXT, #name)

static void init(void) {
    if (inited) return;
    inited = 1;
    real_syscall = (long (*)(long, ...))dlsym(RTLD_NEXT, "syscall");
    const char *e;
    if ((e = getenv("FSSHIM_FD"))) trace_fd = atoi(e);
    if ((e = getenv("FSSHIM_FAIL_AT"))) fail_at = atol(e);
    if ((e = getenv("FSSHIM_ERRNO"))) fail_errno = atoi(e);
    if ((e = getenv("FSSHIM_FAIL_AT2"))) fail_at2 = atol(e);
    if ((e = getenv("FSSHIM_ERRNO2"))) fail_errno2 = atoi(e);
    if ((e = getenv("FSSHIM_KILL_AT"))) kill_at = atol(e);
    if ((e = getenv("FSSHIM_PLANT_AT"))) plant_at = atol(e);
    if ((e = getenv("FSSHIM_PLANT_PATH"))) plant_path = e;
    if ((e = getenv("FSSHIM_KILL_WHEN"))) kill_after = (strcmp(e, "after") == 0);
    if ((e = getenv("FSSHIM_SIM_FICLONE"))) sim_ficlone = atoi(e);
    if ((e = getenv("FSSHIM_SCOPE"))) {
        strncpy(scope, e, MAXPATH - 1);
        scope_len = strlen(scope);
    }
}
__attribute__((constructor)) static void ctor(void) { init(); }

/* ---- logging (raw system calls only) ------------------------------------------------------- */
static void raw_write(const char *b, size_t n) {
    if (trace_fd < 0) return;
    while (n > 0) {
        long r = real_syscall(SYS_write, (long)trace_fd, b, n);
        if (r <= 0) return;
        b += r;
        n -= (size_t)r;
    }
}

struct buf { char b[3 * MAXPATH * 2 + 512]; size_t n; };
static void bputs(struct buf *o, const char *s) {
    while (*s && o->n < sizeof(o->b) - 4) o->b[o->n++] = *s++;
}
static void bnum(struct buf *o, long v) {
    char t[32];
    snprintf(t, sizeof t, "%ld", v);
    bputs(o, t);
}
static void bpath(struct buf *o, const char *p) {
    static const char hx[] = "0123456789ABCDEF";
    if (!p) { bputs(o, "%00NULL"); return; }
    if (!*p) { bputs(o, "%00EMPTY"); return; }
    for (; *p && o->n < sizeof(o->b) - 8; p++) {
        unsigned char c = (unsigned char)*p;
        if ((c >= 'a' && c <= 'z') || (c >= 'A' && c <= 'Z') || (c >= '0' && c <= '9') || c == '_' || c == '.' ||
            c == '/' || c == '-')
            o->b[o->n++] = (char)c;
        else {
            o->b[o->n++] = '%';
            o->b[o->n++] = hx[c >> 4];
            o->b[o->n++] = hx[c & 15];
        }
    }
}
static void bfd(struct buf *o, int fd) {
    bputs(o, "fd=");
    bnum(o, fd);
    bputs(o, ":");
    if (fd >= 0 && fd < MAXFD && fdpath[fd]) bpath(o, fdpath[fd]);
    else bputs(o, "?");
}

/* ---- scope --------------------------------------------------------------------------------- */
static int abs_of(int dirfd, const char *p, char *out) {
    /* textual absolute form (no symlink resolution): enough to decide membership of the scope */
    if (!p) return 0;
    if (p[0] == '/') { strncpy(out, p, MAXPATH - 1); out[MAXPATH - 1] = 0; return 1; }
    if (dirfd == AT_FDCWD) {
        char cwd[MAXPATH];
        long r = real_syscall(SYS_getcwd, cwd, (long)sizeof cwd);
        if (r <= 0) return 0;
        snprintf(out, MAXPATH, "%s/%s", cwd, p);
        return 1;
    }
    if (dirfd >= 0 && dirfd < MAXFD && fdpath[dirfd]) {
        snprintf(out, MAXPATH, "%s/%s", fdpath[dirfd], p);
        return 1;
    }
    return 0;
}
static int in_scope_abs(const char *a) {
    if (scope_len == 0) return 0;
    return strncmp(a, scope, scope_len) == 0 && (a[scope_len] == '/' || a[scope_len] == 0);
}
static int in_scope(int dirfd, const char *p, char *absbuf) {
    if (!abs_of(dirfd, p, absbuf)) return 0;
    return in_scope_abs(absbuf);
}
static int fd_in_scope(int fd) { return fd >= 0 && fd < MAXFD && fdpath[fd] != NULL; }

/* ---- the counted-call protocol --------------------------------------------------------------
 * enter(): take the lock, bump the counter, decide the action.  Returns the index; *act:
 *   0 = run the real call, 1 = inject failure, and handles kill-before itself.
 * leave(): writes the trace line, handles kill-after, releases the lock.                       */
static void die_now(void) {
    real_syscall(SYS_kill, (long)real_syscall(SYS_getpid), (long)SIGKILL);
    for (;;) real_syscall(SYS_pause);
}

struct rec { long n; int act; struct buf o; };

static void rec_begin(struct rec *r, int counted, const char *name) {
    pthread_mutex_lock(&mu);
    r->o.n = 0;
    r->act = 0;
    r->n = 0;
    if (counted) {
        r->n = ++counter;
        if (fail_at && r->n == fail_at) { r->act = 1; cur_errno = fail_errno; }
        if (fail_at2 && r->n == fail_at2) { r->act = 1; cur_errno = fail_errno2; }
    }
    (void)name;
}
static void rec_emit(struct rec *r, const char *name, long ret, int err, const char *inj) {
    struct buf h;
    h.n = 0;
    bnum(&h, r->n);
    bputs(&h, "\t");
    bputs(&h, name);
    bputs(&h, "\t");
    bnum(&h, ret);
    bputs(&h, "\t");
    bnum(&h, err);
    bputs(&h, "\t");
    bputs(&h, inj);
    h.b[h.n] = 0;
    r->o.b[r->o.n] = 0;
    struct buf line;
    line.n = 0;
    bputs(&line, h.b);
    /* args were accumulated in r->o (already tab separated, each starting with a tab) */
    size_t i;
    for (i = 0; i < r->o.n && line.n < sizeof(line.b) - 2; i++) line.b[line.n++] = r->o.b[i];
    line.b[line.n++] = '\n';
    raw_write(line.b, line.n);
}
/* called after the arguments were formatted, before the real call */
static void rec_before(struct rec *r, const char *name) {
    if (r->n && plant_at && r->n == plant_at && plant_path) {
        /* the intruder: creates the path (O_EXCL) just before this call runs */
        long fd = real_syscall(SYS_openat, (long)AT_FDCWD, (long)plant_path, (long)(O_WRONLY | O_CREAT | O_EXCL), 0644L);
        if (fd >= 0) {
            real_syscall(SYS_write, fd, (long)"intruder\n", 9L);
            real_syscall(SYS_close, fd);
        }
    }
    if (r->n && kill_at && r->n == kill_at && !kill_after) {
        rec_emit(r, name, 0, 0, "KB");
        die_now();
    }
}
static void rec_end(struct rec *r, const char *name, long ret, int err, const char *inj) {
    if (r->n && kill_at && r->n == kill_at && kill_after) {
        rec_emit(r, name, ret, err, "KA");
        die_now();
    }
    rec_emit(r, name, ret, err, inj);
    pthread_mutex_unlock(&mu);
}
static void arg_path(struct rec *r, const char *p) { bputs(&r->o, "\t"); bpath(&r->o, p); }
static void arg_num(struct rec *r, const char *k, long v) { bputs(&r->o, "\t"); bputs(&r->o, k); bnum(&r->o, v); }
static void arg_fd(struct rec *r, int fd) { bputs(&r->o, "\t"); bfd(&r->o, fd); }

static void remember_fd(int fd, const char *abs, int wr) {
    if (fd < 0 || fd >= MAXFD) return;
    if (fdpath[fd]) free(fdpath[fd]);
    fdpath[fd] = strdup(abs);
    fdwr[fd] = (char)wr;
}
static void forget_fd(int fd) {
    if (fd < 0 || fd >= MAXFD) return;
    if (fdpath[fd]) { free(fdpath[fd]); fdpath[fd] = NULL; }
    fdwr[fd] = 0;
}

/* generic wrappers for the common shapes ------------------------------------------------------ */
#define COUNTED_1PATH(NAME, DIRFD, PATH, CALL)                                   \
    init();                                                                      \
    char a_[MAXPATH];                                                            \
    if (!in_scope(DIRFD, PATH, a_)) return CALL;                                 \
    struct rec r_;                                                               \
    rec_begin(&r_, 1, NAME);                                                     \
    arg_path(&r_, a_);

#define FINISH_INT(NAME, CALL)                                                   \
    rec_before(&r_, NAME);                                                       \
    if (r_.act == 1) { rec_end(&r_, NAME, -1, cur_errno, "F"); errno = cur_errno; return -1; } \
    { int ret_ = CALL; int e_ = errno; rec_end(&r_, NAME, ret_, ret_ < 0 ? e_ : 0, "-"); errno = e_; return ret_; }

/* ---- rename family ---------------------------------------------------------------------------- */
static int do_rename(const char *nm, int od, const char *o, int nd, const char *n, unsigned fl, int kind) {
    REAL(int, rename, const char *, const char *);
    REAL(int, renameat, int, const char *, int, const char *);
    REAL(int, renameat2, int, const char *, int, const char *, unsigned);
    init();
    char a[MAXPATH], b[MAXPATH];
    int sa = in_scope(od, o, a), sb = in_scope(nd, n, b);
    if (!sa && !sb) return kind == 0 ? real_rename(o, n) : kind == 1 ? real_renameat(od, o, nd, n) : real_renameat2(od, o, nd, n, fl);
    struct rec r_;
    rec_begin(&r_, 1, nm);
    arg_path(&r_, sa ? a : o);
    arg_path(&r_, sb ? b : n);
    rec_before(&r_, nm);
    if (r_.act == 1) { rec_end(&r_, nm, -1, cur_errno, "F"); errno = cur_errno; return -1; }
    int ret = kind == 0 ? real_rename(o, n) : kind == 1 ? real_renameat(od, o, nd, n) : real_renameat2(od, o, nd, n, fl);
    int e = errno;
    rec_end(&r_, nm, ret, ret < 0 ? e : 0, "-");
    errno = e;
    return ret;
}
int rename(const char *o, const char *n) { return do_rename("rename", AT_FDCWD, o, AT_FDCWD, n, 0, 0); }
int renameat(int od, const char *o, int nd, const char *n) { return do_rename("rename", od, o, nd, n, 0, 1); }
int renameat2(int od, const char *o, int nd, const char *n, unsigned fl) { return do_rename("rename", od, o, nd, n, fl, 2); }

/* ---- link / symlink --------------------------------------------------------------------------- */
static int do_link(int od, const char *o, int nd, const char *n, int fl, int kind) {
    REAL(int, link, const char *, const char *);
    REAL(int, linkat, int, const char *, int, const char *, int);
    init();
    char a[MAXPATH], b[MAXPATH];
    int sa = in_scope(od, o, a), sb = in_scope(nd, n, b);
    if (!sa && !sb) return kind == 0 ? real_link(o, n) : real_linkat(od, o, nd, n, fl);
    struct rec r_;
    rec_begin(&r_, 1, "link");
    arg_path(&r_, sa ? a : o);
    arg_path(&r_, sb ? b : n);
    arg_num(&r_, "flags=", fl);
    rec_before(&r_, "link");
    if (r_.act == 1) { rec_end(&r_, "link", -1, cur_errno, "F"); errno = cur_errno; return -1; }
    int ret = kind == 0 ? real_link(o, n) : real_linkat(od, o, nd, n, fl);
    int e = errno;
    rec_end(&r_, "link", ret, ret < 0 ? e : 0, "-");
    errno = e;
    return ret;
}
int link(const char *o, const char *n) { return do_link(AT_FDCWD, o, AT_FDCWD, n, 0, 0); }
int linkat(int od, const char *o, int nd, const char *n, int fl) { return do_link(od, o, nd, n, fl, 1); }

static int do_symlink(const char *t, int nd, const char *l, int kind) {
    REAL(int, symlink, const char *, const char *);
    REAL(int, symlinkat, const char *, int, const char *);
    init();
    char b[MAXPATH];
    if (!in_scope(nd, l, b)) return kind == 0 ? real_symlink(t, l) : real_symlinkat(t, nd, l);
    struct rec r_;
    rec_begin(&r_, 1, "symlink");
    arg_path(&r_, t);
    arg_path(&r_, b);
    rec_before(&r_, "symlink");
    if (r_.act == 1) { rec_end(&r_, "symlink", -1, cur_errno, "F"); errno = cur_errno; return -1; }
    int ret = kind == 0 ? real_symlink(t, l) : real_symlinkat(t, nd, l);
    int e = errno;
    rec_end(&r_, "symlink", ret, ret < 0 ? e : 0, "-");
    errno = e;
    return ret;
}
int symlink(const char *t, const char *l) { return do_symlink(t, AT_FDCWD, l, 0); }
int symlinkat(const char *t, int nd, const char *l) { return do_symlink(t, nd, l, 1); }

/* ---- unlink / rmdir / mkdir ------------------------------------------------------------------- */
int unlink(const char *p) {
    REAL(int, unlink, const char *);
    COUNTED_1PATH("unlink", AT_FDCWD, p, real_unlink(p))
    FINISH_INT("unlink", real_unlink(p))
}
int unlinkat(int d, const char *p, int fl) {
    REAL(int, unlinkat, int, const char *, int);
    const char *nm = (fl & AT_REMOVEDIR) ? "rmdir" : "unlink";
    COUNTED_1PATH(nm, d, p, real_unlinkat(d, p, fl))
    FINISH_INT(nm, real_unlinkat(d, p, fl))
}
int rmdir(const char *p) {
    REAL(int, rmdir, const char *);
    COUNTED_1PATH("rmdir", AT_FDCWD, p, real_rmdir(p))
    FINISH_INT("rmdir", real_rmdir(p))
}
int mkdir(const char *p, mode_t m) {
    REAL(int, mkdir, const char *, mode_t);
    COUNTED_1PATH("mkdir", AT_FDCWD, p, real_mkdir(p, m))
    FINISH_INT("mkdir", real_mkdir(p, m))
}
int mkdirat(int d, const char *p, mode_t m) {
    REAL(int, mkdirat, int, const char *, mode_t);
    COUNTED_1PATH("mkdir", d, p, real_mkdirat(d, p, m))
    FINISH_INT("mkdir", real_mkdirat(d, p, m))
}

/* ---- open family -------------------------------------------------------------------------------
 * counted iff the access mode is O_WRONLY / O_RDWR or O_CREAT / O_TRUNC is set; read-only opens in
 * scope are logged with n = 0 (so that descriptors can be mapped back to paths) and never fail.   */
static int do_open(int d, const char *p, int flags, mode_t mode, int kind) {
    REAL(int, open, const char *, int, ...);
    REAL(int, open64, const char *, int, ...);
    REAL(int, openat, int, const char *, int, ...);
    REAL(int, openat64, int, const char *, int, ...);
    init();
    char a[MAXPATH];
#define REALOPEN (kind == 0 ? real_open(p, flags, mode) : kind == 1 ? real_open64(p, flags, mode) : \
                  kind == 2 ? real_openat(d, p, flags, mode) : real_openat64(d, p, flags, mode))
    if (!in_scope(d, p, a)) return REALOPEN;
    int wr = ((flags & O_ACCMODE) != O_RDONLY) || (flags & (O_CREAT | O_TRUNC));
    struct rec r_;
    rec_begin(&r_, wr, "open");
    arg_path(&r_, a);
    {
        char fb[64];
        fb[0] = 0;
        strcat(fb, (flags & O_ACCMODE) == O_RDONLY ? "r" : (flags & O_ACCMODE) == O_WRONLY ? "w" : "rw");
        if (flags & O_CREAT) strcat(fb, "+creat");
        if (flags & O_TRUNC) strcat(fb, "+trunc");
        if (flags & O_EXCL) strcat(fb, "+excl");
        if (flags & O_APPEND) strcat(fb, "+append");
        if (flags & O_DIRECTORY) strcat(fb, "+dir");
        if (flags & O_NOFOLLOW) strcat(fb, "+nofollow");
        bputs(&r_.o, "\t");
        bputs(&r_.o, fb);
    }
    rec_before(&r_, "open");
    if (r_.act == 1) { rec_end(&r_, "open", -1, cur_errno, "F"); errno = cur_errno; return -1; }
    int ret = REALOPEN;
    int e = errno;
    if (ret >= 0) remember_fd(ret, a, wr);
    rec_end(&r_, "open", ret, ret < 0 ? e : 0, "-");
    errno = e;
    return ret;
#undef REALOPEN
}
#define OPEN_BODY(KIND, D)                          \
    mode_t mode = 0;                                \
    if (flags & (O_CREAT | O_TMPFILE)) {            \
        va_list ap;                                 \
        va_start(ap, flags);                        \
        mode = (mode_t)va_arg(ap, int);             \
        va_end(ap);                                 \
    }                                               \
    return do_open(D, p, flags, mode, KIND);
int open(const char *p, int flags, ...) { OPEN_BODY(0, AT_FDCWD) }
int open64(const char *p, int flags, ...) { OPEN_BODY(1, AT_FDCWD) }
int openat(int d, const char *p, int flags, ...) { OPEN_BODY(2, d) }
int openat64(int d, const char *p, int flags, ...) { OPEN_BODY(3, d) }
int creat(const char *p, mode_t m) { return do_open(AT_FDCWD, p, O_CREAT | O_WRONLY | O_TRUNC, m, 0); }
int creat64(const char *p, mode_t m) { return do_open(AT_FDCWD, p, O_CREAT | O_WRONLY | O_TRUNC, m, 1); }

int close(int fd) {
    REAL(int, close, int);
    init();
    if (!fd_in_scope(fd)) return real_close(fd);
    struct rec r_;
    rec_begin(&r_, 0, "close");
    arg_fd(&r_, fd);
    int ret = real_close(fd);
    int e = errno;
    forget_fd(fd);
    rec_end(&r_, "close", ret, ret < 0 ? e : 0, "-");
    errno = e;
    return ret;
}

/* ---- data-moving calls on descriptors -------------------------------------------------------- */
static long sim_clone(int dst, int src) {
    /* FSSHIM_SIM_FICLONE: emulate a successful whole-file clone by copying (labelled S in the trace) */
    char b[65536];
    off_t off = 0;
    for (;;) {
        long r = real_syscall(SYS_pread64, (long)src, b, (long)sizeof b, (long)off);
        if (r < 0) return -1;
        if (r == 0) break;
        long w = real_syscall(SYS_pwrite64, (long)dst, b, r, (long)off);
        if (w != r) return -1;
        off += r;
    }
    real_syscall(SYS_ftruncate, (long)dst, (long)off);
    return 0;
}
int ioctl(int fd, unsigned long req, ...) {
    REAL(int, ioctl, int, unsigned long, ...);
    va_list ap;
    va_start(ap, req);
    void *arg = va_arg(ap, void *);
    va_end(ap);
    init();
    if (req != FICLONE || !fd_in_scope(fd)) return real_ioctl(fd, req, arg);
    int src = (int)(intptr_t)arg;
    struct rec r_;
    rec_begin(&r_, 1, "ficlone");
    arg_fd(&r_, src);
    arg_fd(&r_, fd);
    rec_before(&r_, "ficlone");
    if (r_.act == 1) { rec_end(&r_, "ficlone", -1, cur_errno, "F"); errno = cur_errno; return -1; }
    if (sim_ficlone) {
        long s = sim_clone(fd, src);
        rec_end(&r_, "ficlone", s, s < 0 ? EIO : 0, "S");
        if (s < 0) errno = EIO;
        return (int)s;
    }
    int ret = real_ioctl(fd, req, arg);
    int e = errno;
    rec_end(&r_, "ficlone", ret, ret < 0 ? e : 0, "-");
    errno = e;
    return ret;
}
ssize_t copy_file_range(int in, off64_t *oi, int out, off64_t *oo, size_t len, unsigned fl) {
    REAL(ssize_t, copy_file_range, int, off64_t *, int, off64_t *, size_t, unsigned);
    init();
    if (!fd_in_scope(out)) return real_copy_file_range(in, oi, out, oo, len, fl);
    struct rec r_;
    rec_begin(&r_, 1, "copy_file_range");
    arg_fd(&r_, in);
    arg_fd(&r_, out);
    rec_before(&r_, "copy_file_range");
    if (r_.act == 1) { rec_end(&r_, "copy_file_range", -1, cur_errno, "F"); errno = cur_errno; return -1; }
    ssize_t ret = real_copy_file_range(in, oi, out, oo, len, fl);
    int e = errno;
    rec_end(&r_, "copy_file_range", (long)ret, ret < 0 ? e : 0, "-");
    errno = e;
    return ret;
}
static ssize_t do_sendfile(int out, int in, void *off, size_t cnt, int kind) {
    REAL(ssize_t, sendfile, int, int, off_t *, size_t);
    REAL(ssize_t, sendfile64, int, int, off64_t *, size_t);
    init();
    if (!fd_in_scope(out)) return kind ? real_sendfile64(out, in, off, cnt) : real_sendfile(out, in, off, cnt);
    struct rec r_;
    rec_begin(&r_, 1, "sendfile");
    arg_fd(&r_, in);
    arg_fd(&r_, out);
    rec_before(&r_, "sendfile");
    if (r_.act == 1) { rec_end(&r_, "sendfile", -1, cur_errno, "F"); errno = cur_errno; return -1; }
    ssize_t ret = kind ? real_sendfile64(out, in, off, cnt) : real_sendfile(out, in, off, cnt);
    int e = errno;
    rec_end(&r_, "sendfile", (long)ret, ret < 0 ? e : 0, "-");
    errno = e;
    return ret;
}
ssize_t sendfile(int out, int in, off_t *off, size_t cnt) { return do_sendfile(out, in, off, cnt, 0); }
ssize_t sendfile64(int out, int in, off64_t *off, size_t cnt) { return do_sendfile(out, in, off, cnt, 1); }

ssize_t write(int fd, const void *b, size_t n) {
    init();
    if (!fd_in_scope(fd) || !fdwr[fd]) return (ssize_t)real_syscall(SYS_write, (long)fd, b, n);
    struct rec r_;
    rec_begin(&r_, 1, "write");
    arg_fd(&r_, fd);
    rec_before(&r_, "write");
    if (r_.act == 1) { rec_end(&r_, "write", -1, cur_errno, "F"); errno = cur_errno; return -1; }
    long ret = real_syscall(SYS_write, (long)fd, b, n);
    int e = errno;
    rec_end(&r_, "write", ret, ret < 0 ? e : 0, "-");
    errno = e;
    return (ssize_t)ret;
}
ssize_t pwrite64(int fd, const void *b, size_t n, off64_t off) {
    init();
    if (!fd_in_scope(fd) || !fdwr[fd]) return (ssize_t)real_syscall(SYS_pwrite64, (long)fd, b, n, (long)off);
    struct rec r_;
    rec_begin(&r_, 1, "write");
    arg_fd(&r_, fd);
    rec_before(&r_, "write");
    if (r_.act == 1) { rec_end(&r_, "write", -1, cur_errno, "F"); errno = cur_errno; return -1; }
    long ret = real_syscall(SYS_pwrite64, (long)fd, b, n, (long)off);
    int e = errno;
    rec_end(&r_, "write", ret, ret < 0 ? e : 0, "-");
    errno = e;
    return (ssize_t)ret;
}
ssize_t pwrite(int fd, const void *b, size_t n, off_t off) { return pwrite64(fd, b, n, off); }

int ftruncate(int fd, off_t len) {
    REAL(int, ftruncate, int, off_t);
    init();
    if (!fd_in_scope(fd)) return real_ftruncate(fd, len);
    struct rec r_;
    rec_begin(&r_, 1, "truncate");
    arg_fd(&r_, fd);
    FINISH_INT("truncate", real_ftruncate(fd, len))
}
int ftruncate64(int fd, off64_t len) {
    REAL(int, ftruncate64, int, off64_t);
    init();
    if (!fd_in_scope(fd)) return real_ftruncate64(fd, len);
    struct rec r_;
    rec_begin(&r_, 1, "truncate");
    arg_fd(&r_, fd);
    FINISH_INT("truncate", real_ftruncate64(fd, len))
}
int truncate(const char *p, off_t len) {
    REAL(int, truncate, const char *, off_t);
    COUNTED_1PATH("truncate", AT_FDCWD, p, real_truncate(p, len))
    FINISH_INT("truncate", real_truncate(p, len))
}
int truncate64(const char *p, off64_t len) {
    REAL(int, truncate64, const char *, off64_t);
    COUNTED_1PATH("truncate", AT_FDCWD, p, real_truncate64(p, len))
    FINISH_INT("truncate", real_truncate64(p, len))
}

/* ---- metadata -------------------------------------------------------------------------------- */
int utimensat(int d, const char *p, const struct timespec t[2], int fl) {
    REAL(int, utimensat, int, const char *, const struct timespec *, int);
    init();
    const char *volatile pv_ = p;   /* glibc declares p nonnull; the kernel interface allows NULL (descriptor form) */
    if (pv_ == NULL) {
        if (!fd_in_scope(d)) return real_utimensat(d, p, t, fl);
        struct rec r_;
        rec_begin(&r_, 1, "utimes");
        arg_fd(&r_, d);
        FINISH_INT("utimes", real_utimensat(d, p, t, fl))
    }
    COUNTED_1PATH("utimes", d, p, real_utimensat(d, p, t, fl))
    FINISH_INT("utimes", real_utimensat(d, p, t, fl))
}
int futimens(int fd, const struct timespec t[2]) {
    REAL(int, futimens, int, const struct timespec *);
    init();
    if (!fd_in_scope(fd)) return real_futimens(fd, t);
    struct rec r_;
    rec_begin(&r_, 1, "utimes");
    arg_fd(&r_, fd);
    FINISH_INT("utimes", real_futimens(fd, t))
}
int utimes(const char *p, const struct timeval t[2]) {
    REAL(int, utimes, const char *, const struct timeval *);
    COUNTED_1PATH("utimes", AT_FDCWD, p, real_utimes(p, t))
    FINISH_INT("utimes", real_utimes(p, t))
}
int lutimes(const char *p, const struct timeval t[2]) {
    REAL(int, lutimes, const char *, const struct timeval *);
    COUNTED_1PATH("utimes", AT_FDCWD, p, real_lutimes(p, t))
    FINISH_INT("utimes", real_lutimes(p, t))
}
int futimes(int fd, const struct timeval t[2]) {
    REAL(int, futimes, int, const struct timeval *);
    init();
    if (!fd_in_scope(fd)) return real_futimes(fd, t);
    struct rec r_;
    rec_begin(&r_, 1, "utimes");
    arg_fd(&r_, fd);
    FINISH_INT("utimes", real_futimes(fd, t))
}
int utime(const char *p, const struct utimbuf *t) {
    REAL(int, utime, const char *, const struct utimbuf *);
    COUNTED_1PATH("utimes", AT_FDCWD, p, real_utime(p, t))
    FINISH_INT("utimes", real_utime(p, t))
}
int chmod(const char *p, mode_t m) {
    REAL(int, chmod, const char *, mode_t);
    COUNTED_1PATH("chmod", AT_FDCWD, p, real_chmod(p, m))
    FINISH_INT("chmod", real_chmod(p, m))
}
int fchmodat(int d, const char *p, mode_t m, int fl) {
    REAL(int, fchmodat, int, const char *, mode_t, int);
    COUNTED_1PATH("chmod", d, p, real_fchmodat(d, p, m, fl))
    FINISH_INT("chmod", real_fchmodat(d, p, m, fl))
}
int fchmod(int fd, mode_t m) {
    REAL(int, fchmod, int, mode_t);
    init();
    if (!fd_in_scope(fd)) return real_fchmod(fd, m);
    struct rec r_;
    rec_begin(&r_, 1, "chmod");
    arg_fd(&r_, fd);
    FINISH_INT("chmod", real_fchmod(fd, m))
}
int chown(const char *p, uid_t u, gid_t g) {
    REAL(int, chown, const char *, uid_t, gid_t);
    COUNTED_1PATH("chown", AT_FDCWD, p, real_chown(p, u, g))
    FINISH_INT("chown", real_chown(p, u, g))
}
int lchown(const char *p, uid_t u, gid_t g) {
    REAL(int, lchown, const char *, uid_t, gid_t);
    COUNTED_1PATH("chown", AT_FDCWD, p, real_lchown(p, u, g))
    FINISH_INT("chown", real_lchown(p, u, g))
}
int fchownat(int d, const char *p, uid_t u, gid_t g, int fl) {
    REAL(int, fchownat, int, const char *, uid_t, gid_t, int);
    COUNTED_1PATH("chown", d, p, real_fchownat(d, p, u, g, fl))
    FINISH_INT("chown", real_fchownat(d, p, u, g, fl))
}
int fchown(int fd, uid_t u, gid_t g) {
    REAL(int, fchown, int, uid_t, gid_t);
    init();
    if (!fd_in_scope(fd)) return real_fchown(fd, u, g);
    struct rec r_;
    rec_begin(&r_, 1, "chown");
    arg_fd(&r_, fd);
    FINISH_INT("chown", real_fchown(fd, u, g))
}

/* ---- advisory locks --------------------------------------------------------------------------- */
static int do_fcntl(int fd, int cmd, void *arg, int kind) {
    REAL(int, fcntl, int, int, ...);
    REAL(int, fcntl64, int, int, ...);
    init();
#define REALF (kind && real_fcntl64 ? real_fcntl64(fd, cmd, arg) : real_fcntl(fd, cmd, arg))
    int lockcmd = (cmd == F_SETLK || cmd == F_SETLKW || cmd == F_OFD_SETLK || cmd == F_OFD_SETLKW);
    if (!lockcmd || !fd_in_scope(fd)) return REALF;
    struct flock *fl = (struct flock *)arg;
    const char *nm = (fl && fl->l_type == F_UNLCK) ? "unlock" : "lock";
    struct rec r_;
    rec_begin(&r_, 1, nm);
    arg_fd(&r_, fd);
    arg_num(&r_, "type=", fl ? fl->l_type : -1);
    arg_num(&r_, "whence=", fl ? fl->l_whence : -1);
    arg_num(&r_, "start=", fl ? (long)fl->l_start : -1);
    arg_num(&r_, "len=", fl ? (long)fl->l_len : -1);     /* 0 = to the end of the file, whatever it grows to */
    rec_before(&r_, nm);
    if (r_.act == 1) { rec_end(&r_, nm, -1, cur_errno, "F"); errno = cur_errno; return -1; }
    int ret = REALF;
    int e = errno;
    rec_end(&r_, nm, ret, ret < 0 ? e : 0, "-");
    errno = e;
    return ret;
#undef REALF
}
int fcntl(int fd, int cmd, ...) {
    va_list ap;
    va_start(ap, cmd);
    void *arg = va_arg(ap, void *);
    va_end(ap);
    return do_fcntl(fd, cmd, arg, 0);
}
int fcntl64(int fd, int cmd, ...) {
    va_list ap;
    va_start(ap, cmd);
    void *arg = va_arg(ap, void *);
    va_end(ap);
    return do_fcntl(fd, cmd, arg, 1);
}

/* ---- raw syscall(): some crates bypass the libc wrappers (filetime's descriptor variant) ----- */
long syscall(long nr, ...) {
    va_list ap;
    va_start(ap, nr);
    long a1 = va_arg(ap, long), a2 = va_arg(ap, long), a3 = va_arg(ap, long), a4 = va_arg(ap, long),
         a5 = va_arg(ap, long), a6 = va_arg(ap, long);
    va_end(ap);
    init();
    switch (nr) {
    case SYS_utimensat: return utimensat((int)a1, (const char *)a2, (const struct timespec *)a3, (int)a4);
    case SYS_renameat2: return renameat2((int)a1, (const char *)a2, (int)a3, (const char *)a4, (unsigned)a5);
    case SYS_copy_file_range:
        return copy_file_range((int)a1, (off64_t *)a2, (int)a3, (off64_t *)a4, (size_t)a5, (unsigned)a6);
    default: return real_syscall(nr, a1, a2, a3, a4, a5, a6);
    }
}
