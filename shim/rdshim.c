/* rdshim.c — LD_PRELOAD fault injector for READ-side calls (property C15).
 *
 * Environment:
 *   RDSHIM_PATH   absolute path the fault applies to (exact match after stripping a trailing '/')
 *   RDSHIM_MATCH  exact (default) | prefix : with prefix every path below the directory RDSHIM_PATH matches
 *   RDSHIM_CALL   stat | open | read | opendir | readdir | readlink | fiemap
 *   RDSHIM_ERRNO  errno value to fail with (13 EACCES, 5 EIO, 2 ENOENT)
 *   RDSHIM_NTH    fail only the n-th matching call (1-based, process-wide counter); 0 = every matching call
 *   RDSHIM_ACTION fail (default) | flip : instead of failing, the hit call is preceded by an IN-PLACE overwrite of the first
 *                 byte of RDSHIM_PATH (same length, new mtime) and then proceeds — an external writer at a precise point
 *   RDSHIM_SHORT  n : every read() on a regular file returns at most n bytes (short reads before EOF)
 *   RDSHIM_LOG    file to append one line per matching call to ("<call> <n> <fail|pass> <path>")
 * read/fiemap: apply to file descriptors obtained by open*() on RDSHIM_PATH; readdir: to DIR* from opendir(RDSHIM_PATH).
 * The logger uses raw syscalls so that it does not recurse into its own wrappers.
 */
#define _GNU_SOURCE
#include <dirent.h>
#include <dlfcn.h>
#include <errno.h>
#include <fcntl.h>
#include <stdarg.h>
#include <stdatomic.h>
#include <stdio.h>
#include <stdlib.h>
#include <string.h>
#include <sys/ioctl.h>
#include <sys/stat.h>
#include <sys/syscall.h>
#include <sys/types.h>
#include <unistd.h>

#define FS_IOC_FIEMAP_NR 0xC020660B

static const char *g_path, *g_call, *g_log;
static int g_errno = 5, g_nth = 0, g_init = 0;
static atomic_int g_count = 0;
#define MAXFD 4096
static atomic_char g_fd_match[MAXFD];
#define MAXDIR 64
static DIR *_Atomic g_dirs[MAXDIR];

static void init(void) {
    if (g_init) return;
    g_path = getenv("RDSHIM_PATH");
    g_call = getenv("RDSHIM_CALL");
    g_log = getenv("RDSHIM_LOG");
    if (getenv("RDSHIM_ERRNO")) g_errno = atoi(getenv("RDSHIM_ERRNO"));
    if (getenv("RDSHIM_NTH")) g_nth = atoi(getenv("RDSHIM_NTH"));
    g_init = 1;
}

static int path_matches(const char *p) {
    init();
    if (!g_path || !p) return 0;
    size_t n = strlen(p);
    while (n > 1 && p[n - 1] == '/') n--;
    if (strlen(g_path) == n && strncmp(g_path, p, n) == 0) return 1;
    /* RDSHIM_MATCH=prefix: every path below the directory RDSHIM_PATH matches */
    const char *m = getenv("RDSHIM_MATCH");
    size_t gl = strlen(g_path);
    return m && strcmp(m, "prefix") == 0 && n > gl && strncmp(g_path, p, gl) == 0 && p[gl] == '/';
}

static void logline(const char *call, int n, int fail, const char *path) {
    if (!g_log) return;
    char buf[4600];
    int len = snprintf(buf, sizeof buf, "%s %d %s %s\n", call, n, fail ? "fail" : "pass", path ? path : "-");
    int fd = (int)syscall(SYS_openat, AT_FDCWD, g_log, O_WRONLY | O_APPEND | O_CREAT, 0644);
    if (fd >= 0) { syscall(SYS_write, fd, buf, (size_t)len); syscall(SYS_close, fd); }
}

/* returns 1 if this matching call must fail */
static int hit(const char *call, const char *path) {
    init();
    if (!g_call || strcmp(g_call, call) != 0) return 0;
    int n = atomic_fetch_add(&g_count, 1) + 1;
    int fail = (g_nth == 0 || n == g_nth);
    logline(call, n, fail, path);
    return fail;
}

/* RDSHIM_ACTION=flip: overwrite byte 0 of the file in place (raw syscalls), return 1 so that the call proceeds */
static int flip_instead(void) {
    const char *a = getenv("RDSHIM_ACTION");
    if (!a || strcmp(a, "flip") != 0 || !g_path) return 0;
    int fd = (int)syscall(SYS_openat, AT_FDCWD, g_path, O_RDWR, 0);
    if (fd >= 0) {
        unsigned char c = 0;
        if (syscall(SYS_pread64, fd, &c, (size_t)1, (off_t)0) == 1) { c ^= 0x55; syscall(SYS_pwrite64, fd, &c, (size_t)1, (off_t)0); }
        syscall(SYS_close, fd);
    }
    return 1;
}

#define NEXT(name) ((__typeof__(&name))dlsym(RTLD_NEXT, #name))

static int is_plain_read_open(int flags) { return (flags & O_ACCMODE) == O_RDONLY && !(flags & O_DIRECTORY); }

int open(const char *path, int flags, ...) {
    va_list ap; va_start(ap, flags); mode_t mode = va_arg(ap, int); va_end(ap);
    int m = path_matches(path) && is_plain_read_open(flags);
    if (m && hit("open", path)) { if (!flip_instead()) { errno = g_errno; return -1; } }
    int fd = NEXT(open)(path, flags, mode);
    if (fd >= 0 && fd < MAXFD) g_fd_match[fd] = m ? 1 : 0;
    return fd;
}
int open64(const char *path, int flags, ...) {
    va_list ap; va_start(ap, flags); mode_t mode = va_arg(ap, int); va_end(ap);
    int m = path_matches(path) && is_plain_read_open(flags);
    if (m && hit("open", path)) { if (!flip_instead()) { errno = g_errno; return -1; } }
    int fd = NEXT(open64)(path, flags, mode);
    if (fd >= 0 && fd < MAXFD) g_fd_match[fd] = m ? 1 : 0;
    return fd;
}
int openat(int dirfd, const char *path, int flags, ...) {
    va_list ap; va_start(ap, flags); mode_t mode = va_arg(ap, int); va_end(ap);
    int m = path_matches(path) && is_plain_read_open(flags);
    if (m && hit("open", path)) { if (!flip_instead()) { errno = g_errno; return -1; } }
    int fd = NEXT(openat)(dirfd, path, flags, mode);
    if (fd >= 0 && fd < MAXFD) g_fd_match[fd] = m ? 1 : 0;
    return fd;
}
int openat64(int dirfd, const char *path, int flags, ...) {
    va_list ap; va_start(ap, flags); mode_t mode = va_arg(ap, int); va_end(ap);
    int m = path_matches(path) && is_plain_read_open(flags);
    if (m && hit("open", path)) { if (!flip_instead()) { errno = g_errno; return -1; } }
    int fd = NEXT(openat64)(dirfd, path, flags, mode);
    if (fd >= 0 && fd < MAXFD) g_fd_match[fd] = m ? 1 : 0;
    return fd;
}
int close(int fd) {
    if (fd >= 0 && fd < MAXFD) g_fd_match[fd] = 0;
    return NEXT(close)(fd);
}
/* RDSHIM_SHORT=<n>: every read() on a REGULAR file returns at most n bytes (a file system that delivers short reads
 * before EOF: 9p, FUSE direct_io, network file systems); independent of RDSHIM_PATH */
static size_t short_cap(int fd, size_t n) {
    static long cap = -1;
    if (cap == -1) { const char *e = getenv("RDSHIM_SHORT"); cap = e ? atol(e) : 0; }
    if (cap <= 0 || n <= (size_t)cap) return n;
    struct stat st;
    if (syscall(SYS_fstat, fd, &st) != 0 || !S_ISREG(st.st_mode)) return n;
    return (size_t)cap;
}
ssize_t read(int fd, void *buf, size_t n) {
    if (fd >= 0 && fd < MAXFD && g_fd_match[fd] && hit("read", g_path)) { if (!flip_instead()) { errno = g_errno; return -1; } }
    return NEXT(read)(fd, buf, short_cap(fd, n));
}
int ioctl(int fd, unsigned long req, ...) {
    va_list ap; va_start(ap, req); void *arg = va_arg(ap, void *); va_end(ap);
    if (req == FS_IOC_FIEMAP_NR && fd >= 0 && fd < MAXFD && g_fd_match[fd] && hit("fiemap", g_path)) { if (!flip_instead()) { errno = g_errno; return -1; } }
    return NEXT(ioctl)(fd, req, arg);
}
int statx(int dirfd, const char *path, int flags, unsigned int mask, struct statx *buf) {
    if (path && path[0] && path_matches(path) && hit("stat", path)) { if (!flip_instead()) { errno = g_errno; return -1; } }
    return NEXT(statx)(dirfd, path, flags, mask, buf);
}
int stat(const char *path, struct stat *buf) {
    if (path_matches(path) && hit("stat", path)) { if (!flip_instead()) { errno = g_errno; return -1; } }
    return NEXT(stat)(path, buf);
}
int lstat(const char *path, struct stat *buf) {
    if (path_matches(path) && hit("stat", path)) { if (!flip_instead()) { errno = g_errno; return -1; } }
    return NEXT(lstat)(path, buf);
}
int stat64(const char *path, struct stat64 *buf) {
    if (path_matches(path) && hit("stat", path)) { if (!flip_instead()) { errno = g_errno; return -1; } }
    return NEXT(stat64)(path, buf);
}
int lstat64(const char *path, struct stat64 *buf) {
    if (path_matches(path) && hit("stat", path)) { if (!flip_instead()) { errno = g_errno; return -1; } }
    return NEXT(lstat64)(path, buf);
}
int fstatat(int dirfd, const char *path, struct stat *buf, int flags) {
    if (path && path[0] && path_matches(path) && hit("stat", path)) { if (!flip_instead()) { errno = g_errno; return -1; } }
    return NEXT(fstatat)(dirfd, path, buf, flags);
}
int fstatat64(int dirfd, const char *path, struct stat64 *buf, int flags) {
    if (path && path[0] && path_matches(path) && hit("stat", path)) { if (!flip_instead()) { errno = g_errno; return -1; } }
    return NEXT(fstatat64)(dirfd, path, buf, flags);
}
ssize_t readlink(const char *path, char *buf, size_t n) {
    if (path_matches(path) && hit("readlink", path)) { if (!flip_instead()) { errno = g_errno; return -1; } }
    return NEXT(readlink)(path, buf, n);
}
DIR *opendir(const char *path) {
    int m = path_matches(path);
    if (m && hit("opendir", path)) { errno = g_errno; return NULL; }
    DIR *d = NEXT(opendir)(path);
    if (d && m) for (int i = 0; i < MAXDIR; i++) { DIR *exp = NULL; if (atomic_compare_exchange_strong(&g_dirs[i], &exp, d)) break; }
    return d;
}
static int dir_tracked(DIR *d) { for (int i = 0; i < MAXDIR; i++) if (g_dirs[i] == d) return 1; return 0; }
int closedir(DIR *d) {
    for (int i = 0; i < MAXDIR; i++) { DIR *exp = d; atomic_compare_exchange_strong(&g_dirs[i], &exp, NULL); }
    return NEXT(closedir)(d);
}
struct dirent *readdir(DIR *d) {
    if (dir_tracked(d) && hit("readdir", g_path)) { errno = g_errno; return NULL; }
    return NEXT(readdir)(d);
}
struct dirent64 *readdir64(DIR *d) {
    if (dir_tracked(d) && hit("readdir", g_path)) { errno = g_errno; return NULL; }
    return NEXT(readdir64)(d);
}
